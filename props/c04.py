"""C04 — factorisations reconstruct the input with the promised structure.

An E1 history produces the input (lazily permuted, meta/hard fused, charged, complex, rectangular
sectors); then svd / qr / eigh / eig run with every option the statement names.  The deciding
fault dimension: the primary LAPACK driver (gesdd, gesdd values-only, scipy eigh) is failed
on block j for EVERY j of the decomposition (complete enumeration for <= 6 blocks, otherwise
first/last/sampled), on a pair, and on all blocks, so that the fallback handlers
(backend_np.safe_svd / svdvals / eigh — never executed by the pinned suite) are driven through
every block position; a double fault (fallback fails too) must surface as the LAPACK error.
Oracles (same with and without faults): reconstruction, isometry/co-isometry/bi-orthonormality,
S real, non-negative, ordered per sector, R upper triangular with non-negative diagonal,
signature and position of the new leg, charge on the selected factor, C02 monitor on all factors.
"""
import copy as _copy

import numpy as np

from sim import core, e1, e1prop, e1run, monitor
from sim.core import yastn

PROP = "C04"
ENGINE = "E1"
LEVEL = "fault_enumeration"
LEVEL_TEXT = ("Per decomposition: complete enumeration of the position of a primary-LAPACK-driver failure (every block j, plus a pair and 'all', plus a double fault) "
              "for decompositions with <= 6 blocks, sampled positions above; over decompositions: seeded exploration of inputs produced by operation histories "
              "(lazy/fused/charged/complex/rectangular) and of all options (axes, sU/sQ, nU, Uaxis/Vaxis/Qaxis/Raxis, fix_signs, compute_uv, which). "
              "Oracles are identical in the fault-free and the fault-injecting executions; the only relaxation is that a double fault may raise.")
LEVEL_NOTE = "Trusted: NumPy/SciPy LAPACK on the fallback path (real gesvd / numpy eigh run); yastn tensordot/eye/norm for assembling the identities (decided under C01); the scipy proxy seam."
TECHNIQUE = "deterministic simulation with fault injection: LAPACK primary-driver failure injected at every block position of each factorisation (fault enumeration) on inputs from seeded operation histories"
RULE = ("one evaluation = one history ending in 1-3 factorisations, each executed fault-free and under every enumerated failure placement. Non-trivial = at least one "
        "factorisation whose fallback handler actually ran and passed all oracles; distinct = SHA-256 of (program, placements).")
REAL_STUB = "real: yastn linalg/merging/backend code incl. the fallback handlers, SciPy/NumPy LAPACK for primary and fallback calls. stub: only the injected failure (the proxy raises LinAlgError instead of calling the primary driver)."
ASSUMPTIONS = ["eig inputs are made non-defective (random square tensors); bi-orthonormality and reconstruction tolerances scale with |U||V|",
               "upper-triangularity of R is asserted in the merged-matrix basis (columns hard-fused in the requested order)"]
CHUNK = 6
WEIGHTS = {"rand": 3, "transpose": 3, "fuse": 2.5, "fuse_pair": 0.5, "unfuse": 1, "conj": 1, "add": 1.5, "tensordot": 2.5, "scal": 0.5, "add_leg": 0.7,
           "pair_unary": 0.5, "copy": 0.3, "meta_to_hard": 0.3, "factorise": 7}
TOL = 1e-10


def budget(tier):
    return 4000 if tier == "quick" else 40000


def _generating():
    return getattr(core.current_world(), "generating", False)


def _eye_like(E):
    return yastn.eye(E.config, legs=E.get_legs(), isdiag=False)


def _diag_blocks(S):
    out = []
    for t in S.get_legs(0).t:
        try:
            out.append((tuple(t), np.asarray(S[tuple(t) + tuple(t)])))
        except yastn.YastnError:
            pass
    if S.config.sym.NSYM == 0:
        try:
            out = [((), np.asarray(S[()]))]
        except yastn.YastnError:
            out = []
    return out


def check_factorisation(task, a, ar, res, what):
    """All C04 oracles for one executed factorisation."""
    V = core.Violation
    kind = ar["kind"]
    l0, l1 = tuple(ar["axes"][0]), tuple(ar["axes"][1])
    ref = a.transpose(axes=l0 + l1)
    na = float(a.norm())
    tol = TOL * max(1.0, na)
    k0, k1 = len(l0), len(l1)
    sgn = ar["s"]

    def close(x, y, oracle, msg, scale=1.0):
        try:
            d = float((x - y).norm())
        except yastn.YastnError as e:
            raise V(PROP, oracle, "%s: %s: results not comparable: %s" % (what, msg, str(e)[:120]))
        if not d <= tol * scale:
            raise V(PROP, oracle, "%s: %s: deviation %.3e (tol %.1e)" % (what, msg, d, tol * scale))

    def unitary(U, rows, oracle, msg, conj=(1, 0), scale=1.0):
        E = yastn.tensordot(U, U, axes=(rows, rows), conj=conj)
        close(E, _eye_like(E), oracle, msg, scale)

    def leg_check(X, ax, s, msg):
        l = X.get_legs(ax)
        if l.s != s:
            raise V(PROP, "new-leg-signature", "%s: %s has signature %d, requested %d" % (what, msg, l.s, s))
        if l.is_fused():
            raise V(PROP, "new-leg-signature", "%s: %s is reported as fused" % (what, msg))

    def charge_check(X, n, msg):
        if tuple(X.n) != tuple(n):
            raise V(PROP, "charge-placement", "%s: %s carries charge %s, expected %s" % (what, msg, X.n, n))

    zero = task.sym.zero()
    for X in res:
        if isinstance(X, yastn.Tensor):
            monitor.check_tensor(X, PROP, what + " factor")

    if kind == "svd":
        if not ar.get("compute_uv", True):
            S = res[0]
        else:
            U, S, Vh = res
        for t, blk in _diag_blocks(S):
            if np.iscomplexobj(blk):
                raise V(PROP, "S-real", "%s: singular values of sector %s are complex" % (what, t))
            if np.any(blk < 0):
                raise V(PROP, "S-nonnegative", "%s: negative singular value in sector %s" % (what, t))
            if np.any(np.diff(blk) > 1e-12 * max(1.0, float(blk[0]) if len(blk) else 1.0)):
                raise V(PROP, "S-ordered", "%s: singular values of sector %s are not in descending order: %s" % (what, t, blk))
        # values: sum S^2 = |a|^2
        s2 = sum(float(np.sum(blk ** 2)) for _, blk in _diag_blocks(S))
        if abs(s2 - na ** 2) > 1e-9 * max(1.0, na ** 2):
            raise V(PROP, "S-values", "%s: sum of squared singular values %.12g, |a|^2 = %.12g" % (what, s2, na ** 2))
        if not ar.get("compute_uv", True):
            return
        ua, va = ar["Uaxis"] % (k0 + 1), ar["Vaxis"] % (k1 + 1)
        leg_check(U, ua, sgn, "connecting leg of U")
        leg_check(Vh, va, -sgn, "connecting leg of V")
        charge_check(U, a.n if ar["nU"] else zero, "U")
        charge_check(Vh, zero if ar["nU"] else a.n, "V")
        U0 = U.moveaxis(source=ua, destination=-1)
        V0 = Vh.moveaxis(source=va, destination=0)
        close(U0 @ S @ V0, ref, "reconstruction", "U S V vs permuted input")
        unitary(U0, tuple(range(k0)), "U-isometry", "U^dagger U vs identity")
        unitary(V0, tuple(range(1, k1 + 1)), "V-coisometry", "V V^dagger vs identity", conj=(0, 1))
        if ar.get("fix_signs"):
            pass
    elif kind == "qr":
        Q, R = res
        qa, ra = ar["Qaxis"] % (k0 + 1), ar["Raxis"] % (k1 + 1)
        leg_check(Q, qa, sgn, "connecting leg of Q")
        leg_check(R, ra, -sgn, "connecting leg of R")
        charge_check(Q, a.n, "Q")
        charge_check(R, zero, "R")
        Q0 = Q.moveaxis(source=qa, destination=-1)
        R0 = R.moveaxis(source=ra, destination=0)
        close(Q0 @ R0, ref, "reconstruction", "Q R vs permuted input")
        unitary(Q0, tuple(range(k0)), "Q-isometry", "Q^dagger Q vs identity")
        # R upper triangular with non-negative diagonal, in the merged-matrix basis
        # the library merges the NATIVE column legs in one flat fusion; a meta-fused column leg is a group of native legs, so it is opened first
        # (fusing it as a unit would give the nested ordering of the sub-blocks, in which R is triangular only up to a permutation)
        Rf = R0
        for _ in range(8):
            metas = [i for i, l in enumerate(Rf.get_legs()) if i > 0 and l.is_fused() and l.history().startswith("m")]
            if not metas:
                break
            Rf = Rf.unfuse_legs(axes=metas[0])
        Rm = Rf.fuse_legs(axes=(0, tuple(range(1, Rf.ndim))), mode="hard") if Rf.ndim > 2 else Rf
        for lt in Rm.get_legs(0).t:
            for rt in Rm.get_legs(1).t:
                try:
                    blk = np.asarray(Rm[tuple(lt) + tuple(rt)])
                except yastn.YastnError:
                    continue
                if blk.ndim != 2:
                    continue
                if np.any(np.abs(np.tril(blk, -1)) > tol):
                    raise V(PROP, "R-upper-triangular", "%s: block (%s,%s) of R is not upper triangular" % (what, lt, rt))
                d = np.diagonal(blk)
                if np.any(np.abs(np.imag(d)) > tol) or np.any(np.real(d) < -tol):
                    raise V(PROP, "R-diagonal", "%s: block (%s,%s) of R has a negative or complex diagonal entry" % (what, lt, rt))
    elif kind == "eigh":
        S, U = res
        ua = ar["Uaxis"] % (k0 + 1)
        leg_check(U, ua, sgn, "connecting leg of U")
        U0 = U.moveaxis(source=ua, destination=-1)
        for t, blk in _diag_blocks(S):
            if np.iscomplexobj(blk):
                raise V(PROP, "S-real", "%s: eigenvalues of a Hermitian tensor are complex in sector %s" % (what, t))
            key = {"SR": blk, "LR": -blk, "LM": -np.abs(blk), "SM": np.abs(blk)}[ar["which"]]
            if np.any(np.diff(key) < -1e-10 * max(1.0, float(np.max(np.abs(blk))) if len(blk) else 1.0)):
                raise V(PROP, "S-ordered", "%s: eigenvalues of sector %s not ordered as which=%s: %s" % (what, t, ar["which"], blk))
        unitary(U0, tuple(range(k0)), "U-isometry", "U^dagger U vs identity")
        rec = yastn.tensordot(U0 @ S, U0, axes=(k0, k0), conj=(0, 1))
        close(rec, ref, "reconstruction", "U S U^dagger vs permuted input", scale=10)
    else:  # eig
        U, S, Vh = res
        ua, va = ar["Uaxis"] % (k0 + 1), ar["Vaxis"] % (k1 + 1)
        leg_check(U, ua, sgn, "connecting leg of U")
        leg_check(Vh, va, -sgn, "connecting leg of V")
        charge_check(U, a.n if ar.get("nU", True) else zero, "U")
        charge_check(Vh, zero if ar.get("nU", True) else a.n, "V")
        U0 = U.moveaxis(source=ua, destination=-1)
        V0 = Vh.moveaxis(source=va, destination=0)
        cond = max(1.0, float(U0.norm()) * float(V0.norm()))
        if cond > 1e5:
            core.current_world().stats["eig_ill_conditioned_skipped"] += 1
            return
        # rows and columns may be fused differently: contract on the elementary legs
        Vu, Uu = e1.unfuse_all(V0), e1.unfuse_all(U0)
        if Vu.ndim != Uu.ndim:
            raise V(PROP, "factor-legs", "%s: U has %d and V has %d elementary legs" % (what, Uu.ndim, Vu.ndim))
        if not any(a.n):
            # (for a charged input V U carries the charge and cannot be the identity: only reconstruction, legs and charge placement are held)
            E = yastn.tensordot(Vu, Uu, axes=(tuple(range(1, Vu.ndim)), tuple(range(Uu.ndim - 1))))
            close(E, _eye_like(E), "VU-biorthonormal", "V U vs identity", scale=cond * 100)
        close(U0 @ S @ V0, ref, "reconstruction", "U S V vs permuted input", scale=cond * 100)


def _relazy(G, ar):
    """An equal tensor that holds a pending (lazy) permutation drawn from the op's own seed."""
    if not ar.get("lazy") or G.ndim < 2:
        return G
    import random
    r = random.Random(ar.get("dseed", 0))
    q = list(range(G.ndim))
    r.shuffle(q)
    inv = [q.index(i) for i in range(G.ndim)]
    return G.transpose(axes=tuple(q)).consume_transpose().transpose(axes=tuple(inv))


@e1.register
class OpFactorise(e1.Op):
    name = "factorise"

    def nout(self, rec):
        return 0

    def gen(self, g):
        rng = g.rng
        kind = rng.choice(["svd", "svd", "svd", "qr", "qr", "eigh", "eig"])
        if kind in ("svd", "qr"):
            a = g.pick_tensor(lambda s, v, sh: sh is not None and not sh.isdiag and sh.ndim >= 2 and len(sh.axes) <= 6 and v.size > 0)
            if a is None:
                return None
            sa = g.sh(a)
            axes = e1._bipartition(g, sa)
            args = {"kind": kind, "axes": axes, "s": rng.choice([-1, 1])}
            k0, k1 = len(axes[0]), len(axes[1])
            if kind == "svd":
                args.update({"nU": rng.random() < 0.5, "Uaxis": rng.randint(-k0 - 1, k0), "Vaxis": rng.randint(-k1 - 1, k1),
                             "fix_signs": rng.random() < 0.3, "compute_uv": rng.random() < 0.85})
            else:
                args.update({"Qaxis": rng.randint(-k0 - 1, k0), "Raxis": rng.randint(-k1 - 1, k1)})
            return {"op": "factorise", "in": [a], "args": args}
        # eigh / eig need a "square" tensor: built from a and (conj of) a same-structure partner
        a = g.pick_tensor(lambda s, v, sh: sh is not None and not sh.isdiag and sh.ndim >= 2 and len(sh.axes) <= 5 and v.size > 0)
        if a is None:
            return None
        sa = g.sh(a)
        l0, l1 = e1._bipartition(g, sa)
        if 2 * e1._total_leaves(sa, l0) > 6:
            return None
        k = len(l0)
        args = {"kind": kind, "gram": [l0, l1], "s": rng.choice([-1, 1]), "Uaxis": rng.randint(-k - 1, k), "which": rng.choice(["SR", "LR", "LM", "SM"]),
                "dseed": rng.randrange(1 << 30)}
        ins = [a]
        if kind == "eig":
            # non-defective by construction: a fresh random tensor with square structure (legs + conjugate legs, charge 0);
            # degenerate spectra are outside what eig promises (tests/tensor/test_eig.py::test_eig_degeneracy_fail)
            k = rng.choice([1, 1, 2, 2, 3])
            specs = [g.leg_spec(full=True) for _ in range(k)]
            ins = []
            args = {"kind": "eig", "specs": specs, "s": rng.choice([-1, 1]), "Uaxis": rng.randint(-k - 1, k), "Vaxis": rng.randint(-k - 1, k), "nU": True,
                    "which": rng.choice(["SR", "LR", "LM", "SM"]), "dtype": rng.choice(["float64", "complex128"]),
                    "fuse": rng.choice([None, "hard", "meta", "meta"]) if k > 1 else None, "dseed": rng.randrange(1 << 30),
                    "fuse_side": rng.choice(["rows", "cols", "both"])}
            if args["fuse"] == "hard":
                args["fuse_side"] = "both"     # eig itself rejects differently hard-fused halves (leg structures must match)
            if g.task.cfgspec["sym"] in ("Z2", "Z3") and rng.random() < 0.5:
                # a CHARGED square tensor: one leg holding every group element with the same dimension, so that each block (t, t - n) is square;
                # the caller chooses the factor that carries the charge (nU)
                order = 2 if g.task.cfgspec["sym"] == "Z2" else 3
                args.update({"specs": [], "charged": {"D": rng.randint(1, 3), "n": [rng.randrange(1, order)], "order": order}, "nU": rng.random() < 0.5,
                             "fuse": None, "Uaxis": rng.randint(-2, 1), "Vaxis": rng.randint(-2, 1)})
                k = 1
            kr = k - 1 if (args["fuse"] and args["fuse_side"] in ("rows", "both")) else k
            kc = k - 1 if (args["fuse"] and args["fuse_side"] in ("cols", "both")) else k
            args["axes"] = [list(range(kr)), list(range(kr, kr + kc))]
            args["Uaxis"] = rng.randint(-kr - 1, kr)
            args["Vaxis"] = rng.randint(-kc - 1, kc)
            args["lazy"] = rng.random() < 0.5
            return {"op": "factorise", "in": [], "args": args}
        # leg order of the square tensor: a random permutation inside each half, kept lazily
        p = list(range(k))
        rng.shuffle(p)
        args["axes"] = [p, [k + i for i in p]]
        args["lazy"] = rng.random() < 0.5
        return {"op": "factorise", "in": ins, "args": args}

    creates = True

    def _input(self, ins, ar, task=None):
        if ar["kind"] in ("svd", "qr"):
            return ins[0]
        if ar["kind"] == "eig" and ar.get("charged"):
            ch = ar["charged"]
            leg = yastn.Leg(task.cfg, s=1, t=[(q,) for q in range(ch["order"])], D=[ch["D"]] * ch["order"])
            return _relazy(yastn.rand(task.cfg, legs=[leg, leg.conj()], n=tuple(ch["n"]), dtype=ar["dtype"]), ar)
        if ar["kind"] == "eig":
            legs = [e1._yleg(task, sp) for sp in ar["specs"]]
            G = yastn.rand(task.cfg, legs=legs + [l.conj() for l in legs], dtype=ar["dtype"])
            G = _relazy(G, ar)
            side = ar.get("fuse_side")
            k = len(legs)
            if ar.get("fuse") and k >= 2:
                # rows and columns fused DIFFERENTLY (or alike): eig must carry each group's fusion to its own factor
                ax = []
                if side in ("rows", "both"):
                    ax.append((0, 1))
                    ax.extend(range(2, k))
                else:
                    ax.extend(range(k))
                if side in ("cols", "both"):
                    ax.append((k, k + 1))
                    ax.extend(range(k + 2, 2 * k))
                else:
                    ax.extend(range(k, 2 * k))
                G = G.fuse_legs(axes=tuple(ax), mode=ar["fuse"])
            return G
        l0, l1 = ar["gram"]
        b = ins[1] if len(ins) > 1 else ins[0]
        G = yastn.tensordot(ins[0], b, axes=(tuple(l1), tuple(l1)), conj=(0, 1))
        return _relazy(G, ar)

    def _call(self, a, ar):
        ax = (tuple(ar["axes"][0]), tuple(ar["axes"][1]))
        k = ar["kind"]
        if k == "svd":
            r = yastn.svd(a, axes=ax, sU=ar["s"], nU=ar["nU"], Uaxis=ar["Uaxis"], Vaxis=ar["Vaxis"], fix_signs=ar["fix_signs"], compute_uv=ar["compute_uv"])
            return list(r) if ar["compute_uv"] else [r]
        if k == "qr":
            return list(yastn.qr(a, axes=ax, sQ=ar["s"], Qaxis=ar["Qaxis"], Raxis=ar["Raxis"]))
        if k == "eigh":
            return list(yastn.eigh(a, axes=ax, sU=ar["s"], Uaxis=ar["Uaxis"], which=ar["which"]))
        return list(yastn.eig(a, axes=ax, sU=ar["s"], nU=ar["nU"], Uaxis=ar["Uaxis"], Vaxis=ar["Vaxis"], which=ar["which"]))

    def run(self, task, rec, ins):
        ar = rec["args"]
        a = self._input(ins, ar, task)
        try:
            res = self._call(a, ar)
        except ValueError as e:
            # eig documents that it gives up on (nearly) defective matrices ("Biorthonormalization ... failed", backend_np.py:387-416).  That
            # rejection is accepted only if the dense matrix confirms it: some left/right eigenvector pair has an overlap below 0.02.
            if ar["kind"] != "eig" or "iorthonormal" not in str(e) or _generating():
                raise
            M = a.fuse_legs(axes=(tuple(ar["axes"][0]), tuple(ar["axes"][1])), mode="hard").to_numpy()
            import scipy.linalg as _sl
            _, VL, VR = _sl.eig(M, left=True, right=True)
            d = np.abs(np.sum(np.conjugate(VL) * VR, axis=0))
            if M.shape[0] == M.shape[1] and d.size and float(d.min()) < 0.02:
                core.current_world().probes["eig_rejected_nearly_defective_input"] += 1
                return []
            raise
        if not _generating():
            what = "op %d %s %s" % (rec["id"], ar["kind"], {k: v for k, v in ar.items() if k not in ("kind", "gram", "lazy")})
            check_factorisation(task, a, ar, res, what)
        return []


def placements(B, rng):
    """Failure placements for a decomposition with B primary driver calls."""
    if B == 0:
        return []
    if B <= 6:
        single = list(range(B))
    else:
        single = sorted({0, B - 1} | set(rng.sample(range(B), 3)))
    out = [[j] for j in single]
    if B >= 2:
        out.append(sorted(rng.sample(range(B), 2)))
        out.append(list(range(B)))
    return out


PRIMARY = {"svd": "svd_gesdd", "svdvals": "svd_gesdd_vals", "eigh": "eigh_scipy"}


def simulate(case, draw):
    """Runs the history once; every factorise op is executed fault-free, then once per enumerated
    placement (draw) or once with the recorded placement (replay)."""
    w = core.World(case["seed"], cache_impl="real", plan={}, lapack=True)
    ts = case["tasks"][0]
    task = e1.task_from_spec(ts)
    progs = {r["id"]: r for r in ts["program"]}
    prng = core.stream(case["seed"], "placements")
    info = {"factorisations": 0, "fallback_runs": 0, "placements": 0, "double_faults": 0, "blocks_enumerated_completely": 0, "checked_outputs": 0,
            "f5": 0, "f5_effective": 0, "exceptions": 0}
    fired = {}
    try:
        for ev in case["schedule"]:
            if ev[0] != "op":
                continue
            rec = progs.get(ev[2])
            if rec is None or not all(s in task.slots for s in rec["in"]):
                continue
            w.plan = {}
            w.begin_op(0, rec["id"])
            w.stats["ops"] += 1
            w.stats["events"] += 1
            try:
                if rec["op"] != "factorise":
                    e1.execute(task, rec, w, shadow=False)
                    continue
                c0 = w.stats["driver_calls"]
                e1.execute(task, rec, w, shadow=False)        # fault-free execution
            except core.Violation as v:
                v.where.update({"arm": "fault-free", "kind": rec["args"].get("kind"), "op": rec["op"]})
                raise
            except Exception as e:  # noqa: BLE001
                info["exceptions"] += 1
                if rec["op"] == "factorise":
                    raise core.Violation(PROP, "exception-where-result-promised", "op %d %s %s raised %s: %s" % (
                        rec["id"], rec["args"]["kind"], rec["args"], type(e).__name__, str(e)[:150]), kind=rec["args"]["kind"], arm="fault-free")
                continue
            info["factorisations"] += 1
            info["checked_outputs"] += 1
            B = w.kp
            kname = rec["args"]["kind"]
            if kname == "svd" and not rec["args"].get("compute_uv", True):
                kname = "svdvals"
            if kname not in PRIMARY or B == 0:
                continue
            if draw:
                plist = placements(B, prng)
                if B <= 6:
                    info["blocks_enumerated_completely"] += 1
                dbl = prng.random() < 0.25 and kname != "eigh"
            else:
                recorded = case.get("placement", {}).get(str(rec["id"]))
                plist = [recorded["blocks"]] if recorded else []
                dbl = bool(recorded and recorded.get("double"))
            for blocks in plist:
                plan = {"0/%s/P%d" % (rec["id"], j): ["lapack_fail", PRIMARY[kname]] for j in blocks}
                w.plan = plan
                w.begin_op(0, rec["id"])
                info["placements"] += 1
                n0 = w.stats["fault_lapack_fail"]
                try:
                    e1.execute(task, rec, w, shadow=False)
                except core.Violation as v:
                    v.where.update({"arm": "lapack-fault", "blocks": blocks, "kind": rec["args"].get("kind"), "uid": rec["id"]})
                    case.setdefault("placement", {})[str(rec["id"])] = {"blocks": blocks, "double": False}
                    raise
                except Exception as e:  # noqa: BLE001
                    case.setdefault("placement", {})[str(rec["id"])] = {"blocks": blocks, "double": False}
                    raise core.Violation(PROP, "fallback-raises", "op %d %s with the primary driver failing on block(s) %s raised %s: %s" % (
                        rec["id"], rec["args"]["kind"], blocks, type(e).__name__, str(e)[:150]), kind=rec["args"]["kind"], arm="lapack-fault", blocks=blocks)
                if w.stats["fault_lapack_fail"] - n0 != len(blocks):
                    raise core.Violation("HARNESS", "placement-not-hit", "planned %s failures, %d fired" % (blocks, w.stats["fault_lapack_fail"] - n0))
                info["fallback_runs"] += 1
                w.probes["fallback_executed_%s" % kname] += 1
                if tuple(task.slots[rec["in"][0]].n) != tuple(task.sym.zero()) and not rec["args"].get("nU", True):
                    w.probes["fallback_with_charged_tensor_nU_False"] += 1
            if dbl and plist:
                # double fault: the fallback driver fails too -> the operation may fail, never return wrong data
                j = plist[0][0]
                w.plan = {"0/%s/P%d" % (rec["id"], j): ["lapack_fail", PRIMARY[kname]], "0/%s/S0" % rec["id"]: ["lapack_fail", "svd_gesvd"]}
                w.begin_op(0, rec["id"])
                info["double_faults"] += 1
                try:
                    e1.execute(task, rec, w, shadow=False)
                except np.linalg.LinAlgError:
                    w.probes["double_fault_surfaced_as_LinAlgError"] += 1
                except core.Violation:
                    raise
                except Exception as e:  # noqa: BLE001
                    case.setdefault("placement", {})[str(rec["id"])] = {"blocks": [j], "double": True}
                    raise core.Violation(PROP, "double-fault-wrong-exception", "double LAPACK fault surfaced as %s: %s" % (type(e).__name__, str(e)[:120]), kind=rec["args"]["kind"])
                else:
                    # no exception: legal only if the oracles inside the op passed on a real result (cannot happen: both drivers failed)
                    case.setdefault("placement", {})[str(rec["id"])] = {"blocks": [j], "double": True}
                    raise core.Violation(PROP, "double-fault-returned", "both LAPACK drivers failed on a block but the factorisation returned a result", kind=rec["args"]["kind"])
        w.plan = {}
        w.close()
        return None, w, info
    except core.Violation as v:
        try:
            w.close()
        except Exception:  # noqa: BLE001
            pass
        return v.as_dict(), w, info


def build(seed, tier):
    case = e1prop.build(seed, tier, PROP, WEIGHTS, nops=(6, 14), p_disturbed=0.0)
    base = case["tasks"][0]["config"]
    swarm = core.stream(seed, "swarm2")
    base.update({"tensordot_policy": swarm.choice(e1run.POLICIES), "default_fusion": swarm.choice(["hard", "meta"])})
    case["arm"] = "fault-enumeration"
    return case


def run_seed(seed, tier):
    # the configuration is part of the generated case: generate under the final knobs
    rng = core.stream(seed, "programs")
    swarm = core.stream(seed, "swarm")
    from sim.models.group import SYM_NAMES
    sym = rng.choice(SYM_NAMES)
    cfg = {"sym": sym, "fermionic": False, "tensordot_policy": swarm.choice(e1run.POLICIES), "default_fusion": swarm.choice(["hard", "meta"]), "force_fusion": None}
    spec = {"id": 0, "config": cfg, "universe": [u.to_json() for u in e1.gen_universe(sym, rng, maxD=swarm.choice([2, 3, 3, 4]))], "tags": {}}
    prog, digs, t = e1run.generate_cold(seed, spec, rng, swarm.randint(6, 14), dict(WEIGHTS), seed_ops=("rand",))
    ts = dict(spec)
    ts["program"] = prog
    case = {"format": 1, "property": PROP, "engine": ENGINE, "arm": "fault-enumeration", "seed": seed, "world": {"cache_impl": "real", "lapack": True},
            "tasks": [ts], "schedule": [["op", 0, r["id"]] for r in prog], "inner": {}, "mode": "plan", "rejected": getattr(t, "rejected", [])}
    v, w, info = simulate(case, draw=True)
    st = dict(w.stats)
    st.update(info)
    st["effective_lapack_fallback_passed_oracles"] = info["fallback_runs"]
    kinds = sorted({r["args"]["kind"] for r in prog if r["op"] == "factorise"})
    return {"violation": v, "case": case if v else None, "stats": st, "probes": dict(w.probes),
            "digest": e1run.schedule_digest(case), "nontrivial": info["fallback_runs"] > 0, "arm": "fault-enumeration",
            "sample": e1run.brief_case(case, maxops=6) if seed % 200 == 0 else None, "ops_seen": ["factorise:" + k for k in kinds]}


def replay(case):
    v, _, _ = simulate(_copy.deepcopy(case), draw=False)
    if v is None and not case.get("placement"):
        return None
    return v


extra_evidence = e1prop.extra_evidence
