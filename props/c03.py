"""C03 — leg fusion is a faithful, reversible change of basis (thin).

Fusion histories (random partitions/orders of legs into groups, depth <= 3, hard / meta /
mixtures, fuse_meta_to_hard, pairs of operands fused from sub-legs of the same universe legs
with equal / overlapping / disjoint sector sets) run against the unfused dense shadow; plus
three self-contained relational ops:
  fuse_roundtrip  O1  unfuse(fuse(x)) == x.transpose(order) exactly, norm unchanged
  block_rel       O3  |block|^2 = sum |x_p|^2, contraction over the blocked leg = sum of pairwise
                      contractions, blocking in steps == blocking at once
  incompatible    O4  operations on incompatibly fused legs raise YastnError (not a value, not another exception)
O2 (binary ops over fused legs == shadow op over constituent axes) is the op-by-op shadow comparison.
"""
import copy as _copy

import numpy as np

from sim import core, e1, e1prop
from sim.core import yastn

PROP = "C03"
ENGINE = "E1"
LEVEL = "exploration"
TECHNIQUE = "seeded fusion histories vs an unfused dense reference model and relational identities (baseline arm); same histories under forced fusion modes, cache faults on the fusion metadata tables and buggify events (disturbed arm, deterministic simulation)"
RULE = ("one evaluation = one fusion-heavy program (8-18 ops). Non-trivial = at least 4 outputs compared of which at least one involved a fused leg, and, for "
        "disturbed runs, an effective disturbance (knobs differ / buggify consumed / cache entry refilled); distinct = SHA-256 of (program, schedule, fired faults).")
REAL_STUB = "real: all yastn code. stub: LRU container in instrumented-cache runs."
ASSUMPTIONS = ["fused basis deliberately not modelled: observation after complete unfusing; exact equality demanded only for pure data movement (fuse/unfuse round trip)"]
CHUNK = 8
WEIGHTS = {"rand": 2.5, "fuse": 6, "fuse_pair": 6, "unfuse": 4, "meta_to_hard": 1.5, "add": 5, "tensordot": 6, "vdot": 3, "trace": 3, "transpose": 3,
           "pair_unary": 3, "conj": 1.5, "ncon": 1.5, "copy": 0.7, "fuse_roundtrip": 3, "block_rel": 4, "incompatible": 2, "norm": 1, "scal": 0.5,
           "factor_recombine": 0.8}


def budget(tier):
    return 10000 if tier == "quick" else 80000


def _generating():
    return getattr(core.current_world(), "generating", False)


@e1.register
class OpFuseRoundtrip(e1.Op):
    name = "fuse_roundtrip"
    shares = True

    def gen(self, g):
        rec = e1.OPS["fuse"].gen(g)
        if rec is None:
            return None
        rec["op"] = "fuse_roundtrip"
        return rec

    def run(self, task, rec, ins):
        a, ar = ins[0], rec["args"]
        axes = tuple(tuple(x) if isinstance(x, list) else x for x in ar["axes"])
        kw = {} if ar["mode"] is None else {"mode": ar["mode"]}
        y = a.fuse_legs(axes=axes, **kw)
        fused = tuple(i for i, x in enumerate(axes) if not isinstance(x, int) and len(x) > 1)
        z = y.unfuse_legs(axes=fused) if fused else y
        if not _generating():
            order = tuple(i for x in axes for i in ((x,) if isinstance(x, int) else x))
            ref = a.transpose(axes=order)
            V = core.Violation
            if e1.eff_mode(task, ar["mode"]) == "hard" and any(m != (1,) for m in a.mfs):
                # hard fusion turns every earlier meta fusion into a hard one (documented): compare on elementary legs
                z, ref = e1.unfuse_all(z), e1.unfuse_all(ref)
            if z.get_legs() != ref.get_legs() or tuple(z.n) != tuple(ref.n):
                raise V(PROP, "O1-roundtrip-legs", "unfuse(fuse(x, %s, %s)) has other legs/charge than x.transpose" % (axes, ar["mode"]))
            if not np.array_equal(z.to_numpy(), ref.to_numpy()):
                raise V(PROP, "O1-roundtrip-values", "unfuse(fuse(x, %s, %s)) differs from x.transpose (pure data movement must be exact)" % (axes, ar["mode"]))
            na, ny = float(a.norm()), float(y.norm())
            if abs(na - ny) > 1e-13 * max(1.0, na):
                raise V(PROP, "O1-norm", "norm changed by fusion: %.17g -> %.17g" % (na, ny))
        return [y]

    def shadow(self, task, rec, sins, outs, ins=None):
        return e1.OPS["fuse"].shadow(task, rec, sins, outs, ins)


@e1.register
class OpBlockRel(e1.Op):
    name = "block_rel"
    creates = True

    def gen(self, g):
        rng, t = g.rng, g.task
        r = rng.choice([2, 3, 3, 4])
        specs = [g.leg_spec(full=True) for _ in range(r)]
        n = g.reachable_n(specs)
        b = rng.randrange(r)
        npos = rng.choice([2, 2, 3])
        subs = []
        for _ in range(npos):
            sp = [list(x) for x in specs]
            for k, x in enumerate(sp):
                U = e1._uleg(t, x)
                if len(U.ts) > 1 and rng.random() < 0.5:
                    x[2] = sorted(rng.sample(range(len(U.ts)), rng.randint(1, len(U.ts))))
            subs.append(sp)
        pos = sorted(rng.sample(range(5), npos))
        return {"op": "block_rel", "in": [], "args": {"specs": subs, "n": n, "axis": b, "pos": pos, "dtype": "complex128" if rng.random() < 0.2 else "float64",
                                                     "pre_fuse": rng.random() < 0.3 and r >= 3, "pseed": rng.randrange(1 << 30)}}

    def run(self, task, rec, ins):
        ar = rec["args"]
        b = ar["axis"]
        n = tuple(ar["n"]) if task.sym.nsym else None
        xs = [yastn.rand(task.cfg, legs=[e1._yleg(task, sp) for sp in sps], n=n, dtype=ar["dtype"]) for sps in ar["specs"]]
        ys = [yastn.rand(task.cfg, legs=[e1._yleg(task, sp) for sp in sps], n=n, dtype=ar["dtype"]) for sps in ar["specs"]]
        r = xs[0].ndim
        pre_fused = False
        if ar.get("pre_fuse") and r >= 3:
            # operands arrive fused (meta or hard, chosen from pseed) on two of their common legs: block documents that it turns meta-fused
            # legs into hard-fused ones, and every relation below must hold unchanged (seeded C03-c)
            import random as _random
            pf = _random.Random(ar["pseed"] ^ 0x5F5F)
            i, j = sorted(pf.sample([q for q in range(r) if q != b], 2))
            grp = tuple((i, j) if q == i else q for q in range(r) if q != j)
            fmode = pf.choice(["meta", "meta", "hard"])
            xs = [x.fuse_legs(axes=grp, mode=fmode) for x in xs]
            ys = [y.fuse_legs(axes=grp, mode=fmode) for y in ys]
            b = grp.index(b)
            r = xs[0].ndim
            pre_fused = True
            core.current_world().probes["block_of_%s_fused_operands" % fmode] += 1
        common = tuple(i for i in range(r) if i != b)
        X = yastn.block({(p,): x for p, x in zip(ar["pos"], xs)}, common_legs=common)
        Y = yastn.block({(p,): y for p, y in zip(ar["pos"], ys)}, common_legs=common)
        if _generating():
            return [X]
        V = core.Violation
        if pre_fused:      # block() was given the operands as fused by the caller; the reference side of every relation uses their hard-fused form
            Xh = yastn.block({(p,): x.fuse_meta_to_hard() for p, x in zip(ar["pos"], xs)}, common_legs=common)
            d = float((Xh - X).norm()) if Xh.get_legs() == X.get_legs() else float("inf")
            if d > 0:
                raise V(PROP, "O3-block-fused-operands", "block of %s-fused operands differs from block of the same operands hard-fused first (%.3e)" % (fmode, d))
            xs = [x.fuse_meta_to_hard() for x in xs]
            ys = [y.fuse_meta_to_hard() for y in ys]
        n2 = sum(float(x.norm()) ** 2 for x in xs)
        if abs(float(X.norm()) ** 2 - n2) > 1e-11 * max(1.0, n2):
            raise V(PROP, "O3-block-norm", "|block|^2 = %.15g, sum of |x_p|^2 = %.15g" % (float(X.norm()) ** 2, n2))
        C = yastn.tensordot(X, Y, axes=(b, b), conj=(0, 1))
        S = None
        for x, y in zip(xs, ys):
            c = yastn.tensordot(x, y, axes=(b, b), conj=(0, 1))
            S = c if S is None else S + c
        d = float((C - S).norm())
        if d > 1e-10 * max(1.0, float(S.norm())):
            raise V(PROP, "O3-block-contraction", "contraction over the blocked leg differs from the sum of pairwise contractions by %.3e" % d)
        if len(xs) >= 3:
            X01 = yastn.block({(ar["pos"][0],): xs[0], (ar["pos"][1],): xs[1]}, common_legs=common)
            X2 = yastn.block({(0,): X01, (1,): xs[2]}, common_legs=common) if len(xs) == 3 else None
            if X2 is not None:
                d = float((X2 - X).norm())
                if d > 1e-12 * max(1.0, float(X.norm())):
                    raise V(PROP, "O3-block-steps", "blocking in two steps differs from blocking at once by %.3e" % d)
        if r >= 3 and not pre_fused and task.sym.nsym and "pseed" in ar and X.size and Y.size:
            # a blocked leg that LOSES sectors (projection of another leg removes blocks by charge conservation), differently in X and Y, and is then
            # product-fused with a further leg: contraction over the fused leg must equal contraction over its two constituents
            import random as _random
            pr = _random.Random(ar["pseed"])
            others = [i for i in range(r) if i != b]
            c, k = pr.sample(others, 2)

            def project(T):
                lc = T.get_legs(c)
                if len(lc.t) == 0:
                    return T
                keep = sorted(pr.sample(range(len(lc.t)), pr.randint(1, len(lc.t))))
                sub = yastn.Leg(task.cfg, s=lc.s, t=[lc.t[i] for i in keep], D=[lc.D[i] for i in keep])
                m = yastn.eye(task.cfg, legs=(sub.conj(), sub), isdiag=False)
                return yastn.tensordot(T, m, axes=(c, 0)).moveaxis(-1, c)
            Xp, Yp = project(X), project(Y)
            lo, hi = min(b, k), max(b, k)
            grp = tuple((lo, hi) if i == lo else i for i in range(r) if i != hi)
            try:
                Xf, Yf = Xp.fuse_legs(axes=grp, mode="hard"), Yp.fuse_legs(axes=grp, mode="hard")
                pf = grp.index((lo, hi))
                Cf = yastn.tensordot(Xf, Yf, axes=(pf, pf), conj=(0, 1))
                Cu = yastn.tensordot(Xp, Yp, axes=((lo, hi), (lo, hi)), conj=(0, 1))
                d = float((Cf - Cu).norm())
            except yastn.YastnError as e:
                raise V(PROP, "O3-block-nested-fusion", "contraction over a product-fused leg containing a blocked leg that lost sectors raised YastnError: %s" % str(e)[:120])
            if d > 1e-10 * max(1.0, float(Cu.norm())):
                raise V(PROP, "O3-block-nested-fusion", "contraction over a product-fused leg containing a blocked leg that lost sectors differs from the contraction over its constituents by %.3e" % d)
            core.current_world().stats["block_nested_fusion_checked"] += 1
        # contraction over all common legs as well (vdot): block diagonal in position
        v = yastn.vdot(X, Y)
        vs = sum(complex(yastn.vdot(x, y)) for x, y in zip(xs, ys))
        if abs(complex(v) - vs) > 1e-10 * max(1.0, abs(vs)):
            raise V(PROP, "O3-block-vdot", "vdot of blocked tensors %r differs from the sum of vdots %r" % (v, vs))
        return [X]


@e1.register
class OpIncompatible(e1.Op):
    name = "incompatible"
    creates = True

    def nout(self, rec):
        return 0

    def gen(self, g):
        rng = g.rng
        specs = [g.leg_spec(full=True) for _ in range(3)]
        n = g.reachable_n(specs)
        return {"op": "incompatible", "in": [], "args": {"specs": specs, "n": n, "kind": rng.choice(["order", "mode", "grouping", "depth"]),
                                                        "binop": rng.choice(["add", "tensordot", "vdot"])}}

    def run(self, task, rec, ins):
        ar = rec["args"]
        n = tuple(ar["n"]) if task.sym.nsym else None
        legs = [e1._yleg(task, sp) for sp in ar["specs"]]
        a = yastn.rand(task.cfg, legs=legs, n=n)
        k = ar["kind"]
        force = task.cfg.force_fusion
        if k == "order":
            # same legs fused in a different order: different fusion trees
            fa = a.fuse_legs(axes=((0, 1), 2), mode="hard")
            b = yastn.rand(task.cfg, legs=[legs[1], legs[0], legs[2]], n=n)
            fb = b.fuse_legs(axes=((0, 1), 2), mode="hard")
            # (l0,l1) vs (l1,l0) is incompatible only if the constituents differ in signature or in the
            # dimension of a common charge; legs that merely differ in sector content are compatible by design
            # (only the signature is a block-independent criterion: yastn keeps no memory of declared-but-empty sectors)
            l0, l1 = legs[0], legs[1]
            if l0.s == l1.s:
                return []
        elif k == "mode":
            if force is not None:
                return []
            fa = a.fuse_legs(axes=((0, 1), 2), mode="hard")
            fb = yastn.rand(task.cfg, legs=legs, n=n).fuse_legs(axes=((0, 1), 2), mode="meta")
        elif k == "grouping":
            fa = a.fuse_legs(axes=((0, 1), 2), mode="hard")
            fb = yastn.rand(task.cfg, legs=legs, n=n).fuse_legs(axes=(0, (1, 2)), mode="hard")
            # ranks agree (2) but trees differ on both legs
        else:
            fa = a.fuse_legs(axes=((0, 1, 2),), mode="hard")
            fb = yastn.rand(task.cfg, legs=legs, n=n).fuse_legs(axes=((0, 1), 2), mode="hard").fuse_legs(axes=((0, 1),), mode="hard")
        if _generating():
            return []
        try:
            if ar["binop"] == "add":
                res = fa + fb
            elif ar["binop"] == "vdot":
                res = yastn.vdot(fa, fb)
            else:
                res = yastn.tensordot(fa, fb, axes=(0, 0), conj=(0, 1))
        except yastn.YastnError:
            core.current_world().stats["incompatible_rejected"] += 1
            return []
        except Exception as e:  # noqa: BLE001
            raise core.Violation(PROP, "O4-incompatible-other-exception", "%s of incompatibly fused operands (%s) raised %s instead of YastnError: %s"
                                 % (ar["binop"], k, type(e).__name__, str(e)[:100]))
        raise core.Violation(PROP, "O4-incompatible-computed", "%s of incompatibly fused operands (%s) returned a value instead of raising YastnError" % (ar["binop"], k))


def has_fused(rec, task):
    for s in rec["in"] + rec["out"]:
        sh = task.shadows.get(s)
        if sh is not None and hasattr(sh, "any_fused") and sh.any_fused():
            return True
    return rec["op"] in ("fuse_roundtrip", "block_rel", "incompatible")


def after_op(w, task, rec, outs):
    if has_fused(rec, task):
        w.stats["ops_on_fused"] += 1
    for q, s in enumerate(rec["out"]):
        what = "op %d %s %s output %d" % (rec["id"], rec["op"], {k: v for k, v in rec["args"].items() if k in ("kind", "axes", "conj", "axis", "mode")}, q)
        try:
            e1.compare(task, task.slots[s], task.shadows.get(s), PROP, what)
        except core.Violation as v:
            v.where.update({"op": rec["op"], "kind": str(rec["args"].get("kind"))})
            raise


def on_exception(w, task, rec, exc):
    if rec["op"] in ("add", "tensordot", "vdot", "trace", "fuse", "unfuse", "fuse_roundtrip", "meta_to_hard", "block_rel", "transpose", "conj"):
        raise core.Violation(PROP, "exception-where-result-promised", "op %d %s %s raised %s: %s where the model computes a result"
                             % (rec["id"], rec["op"], rec["args"], type(exc).__name__, str(exc)[:150]), op=rec["op"], kind=str(rec["args"].get("kind")))


def run_seed(seed, tier):
    u = core.stream(seed, "universe-shape")
    ukw = {"uniform_D": u.choice([1, 2, 2, 3]), "maxsec": 4} if u.random() < 0.35 else None     # sectors of equal dimension: histories differing in charges only
    case = e1prop.build(seed, tier, PROP, WEIGHTS, universe_kw=ukw)
    v, w, info = e1prop.simulate(case, True, after_op, on_exception)
    r = e1prop.result(case, v, w, info, seed)
    r["nontrivial"] = bool(r["nontrivial"] and w.stats.get("ops_on_fused", 0) > 0)
    return r


def replay(case):
    v, _, _ = e1prop.simulate(_copy.deepcopy(case), False, after_op, on_exception)
    return v


extra_evidence = e1prop.extra_evidence
