"""C08 — canonical forms preserve the state; truncation is honest.

An MPS or MPO is a state machine driven by a random history of its in-place API (canonize_,
orthogonalize_site_, absorb_central_, diagonalize_central_, truncate_) interleaved with read-only
norm()/get_Schmidt_values()/get_entropy()/is_canonical() and with observers holding shallow
copies taken at arbitrary earlier points.  Reference: dense state INCLUDING central block and
factor.  Oracles after each op: new state = lambda * old state with lambda > 0 (lambda = 1 when
normalize=False), unit norm and factor 1 after canonize_(normalize=True), isometries in the stated
direction, norm/Schmidt values/entropies equal NumPy SVD of the dense state across every cut,
observers' copies still represent the old state; binding truncation from the documented opposite
canonical form: 1 - d^2 = |psi_t|^2/|psi|^2 and |psi - psi_t| = d |psi| (normalize=False), unit norm
and overlap^2 = 1 - d^2 otherwise; kept values are the largest at each cut.
Faults: LAPACK primary-driver failures inside the QR/SVD sweeps, cache faults at every lookup, knobs.
"""
import copy as _copy

import numpy as np

from sim import core, e1, e1prop, e2, e2prop
import yastn.tn.mps as mps

PROP = "C08"
ENGINE = "E2"
LEVEL = "exploration"
LEVEL_TEXT = ("Seeded histories of the in-place API of MpsMpoOBC (a state machine with central block and factor) with aliasing observers, under LAPACK primary-driver failures "
              "inside the sweeps, cache faults at every lookup and knob variation; dense reference state incl. central block and factor checked after every step. Sampling, not proof.")
LEVEL_NOTE = "Trusted: NumPy SVD of the reshaped dense state; sim/models/mps_dense.py."
TECHNIQUE = "deterministic simulation: seeded histories of the in-place MPS state machine with aliasing observers, LAPACK failures inside sweeps and cache faults at every lookup; dense reference incl. central block and factor after every step"
RULE = ("one evaluation = one history (8-18 ops, mostly in-place calls and spectrum reads) on MPS/MPO of length 1-7. Non-trivial = at least 3 in-place steps checked against the dense state "
        "and, for disturbed runs, an effective disturbance (LAPACK fallback ran, cache entry refilled, knobs differ); distinct = SHA-256 of (program, schedule, fired faults).")
REAL_STUB = "real: yastn.tn.mps, linalg, backend incl. fallback drivers. stub: injected primary-driver failure; LRU container in instrumented runs."
ASSUMPTIONS = ["remove_central_ is excluded from state preservation (it discards the block by documentation)", "binding truncation is asserted only from the documented opposite canonical form"]
CHUNK = 4


def budget(tier):
    return 1000 if tier == "quick" else 12000


@e1.register
class MDegenerate(e1.Op):
    """GHZ-like / rank-deficient states: sums of product states (degenerate Schmidt spectra)."""
    name = "m_degenerate"

    def gen(self, g):
        t = g.task
        sp = t.space
        k = g.rng.choice([2, 2, 3])
        base = [g.rng.randrange(sp.d) for _ in range(t.N)]
        ts = sp.site.state_t
        states = [base]
        for _ in range(k - 1):
            # permute the base configuration: same total charge, orthogonal product state (or equal)
            p = list(base)
            g.rng.shuffle(p)
            states.append(p)
        return {"op": "m_degenerate", "in": [], "args": {"states": states, "amps": [1.0] * k}}

    def run(self, task, rec, ins):
        ar = rec["args"]
        prods = [mps.product_mps([task.space.vec(i) for i in st]) for st in ar["states"]]
        if len(prods) == 1 or task.N == 1:
            return [prods[0]]
        return [mps.add(*prods, amplitudes=ar["amps"])]

    def shadow(self, task, rec, sins, outs, ins=None):
        d = task.space.d
        arr = np.zeros((d,) * task.N)
        sts = rec["args"]["states"] if task.N > 1 else rec["args"]["states"][:1]
        for st, a in zip(sts, rec["args"]["amps"]):
            arr[tuple(st)] += a
        return [arr]


def after_op(w, task, rec, outs):
    if rec["op"] == "m_inplace":
        w.stats["inplace_steps"] += 1
        # observers: every OTHER live object still represents its own dense value (in-place MPS methods replace
        # site tensors of the receiver; shallow copies must not follow)
        recv = rec["in"][0]
        for s, v in task.slots.items():
            if s == recv or not isinstance(v, mps.MpsMpoOBC):
                continue
            sh = task.shadows.get(s)
            if sh is None:
                continue
            try:
                e2.compare_dense(task, v, sh, PROP, "observer slot %d after op %d %s on slot %d" % (s, rec["id"], rec["args"]["kind"], recv), tol=1e-10)
            except core.Violation as vv:
                vv.oracle = "observer-follows-inplace-op"
                raise
    for q, s in enumerate(rec["out"]):
        e2.compare_dense(task, task.slots[s], task.shadows.get(s), PROP, "op %d %s output %d" % (rec["id"], rec["op"], q))


def on_exception(w, task, rec, exc):
    if rec["op"] in ("m_random_mps", "m_random_mpo") and "zero state" in str(exc):
        return
    if rec["op"] in ("m_measure", "m_zipper", "m_inplace", "m_spectrum") and e2.known_meta_product(task, rec, exc):
        return
    if isinstance(exc, np.linalg.LinAlgError) and "injected" in str(exc):
        return   # (QR has no fallback driver; injected only in SVD/eigh primaries, so this does not happen)
    raise core.Violation(PROP, "exception-where-result-promised", "op %d %s %s raised %s: %s" % (rec["id"], rec["op"], rec["args"], type(exc).__name__, str(exc)[:150]), op=rec["op"])


def run_seed(seed, tier):
    case = e2prop.build(seed, tier, PROP, e2.E2_WEIGHTS_C08, seed_ops=("m_random_mps", "m_random_mps"))
    if case["arm"] == "disturbed":
        sw = core.stream(seed, "swarm08")
        case["world"]["fc"]["p_lapack"] = sw.choice([0.2, 0.5, 1.0])
    v, w, info = e1prop.simulate(case, True, after_op, on_exception)
    info["checked_outputs"] = max(info["checked_outputs"], w.stats.get("inplace_steps", 0))
    r = e1prop.result(case, v, w, info, seed, sample_every=100)
    r["nontrivial"] = bool(w.stats.get("inplace_steps", 0) >= 3 and (case["arm"] == "baseline" or r["disturbed_effective"]))
    return r


def replay(case):
    v, _, _ = e1prop.simulate(_copy.deepcopy(case), False, after_op, on_exception)
    return v


extra_evidence = e1prop.extra_evidence
