"""C12 — exact PEPS environments give exact expectation values and valid metrics.

Environments are caches of contractions of a PEPS: the simulated process prepares states by seeded
shallow circuits on finite open lattices (<= 3x3, strips, chains; tree-shaped circuits for belief
propagation), builds boundary-MPS (all set-up orders), CTM (eye/dl + outward expansion) and BP
environments without truncation, and then issues seeded SEQUENCES of measurement calls on the same
environment objects (1-site, nn in both orientations, 2x2, line, n-site exact and windowed, 2-site
tables); every returned number is compared with the dense state's expectation value (all fermionic
signs; identity -> 1).  NTU/BP/CTM bond metrics are observed through an external probe on
env.bond_metric during untruncated evolution steps (Hermitian, PSD), and the evolved state and
reported truncation error are compared with the dense evolution.
"""
import copy as _copy

from sim import core, e1, e1prop, e1run, e3

PROP = "C12"
ENGINE = "E3"
LEVEL = "exploration"
LEVEL_TEXT = ("Baseline arm: seeded circuits -> environments -> measurement-call sequences on the same environment objects vs dense expectation values; bond metrics observed by an external probe. "
              "Disturbed arm (simulation proper): tensordot policy as a knob, cache faults at every metadata lookup inside environment construction / measurement / evolution, LAPACK-driver failures "
              "inside zipper/QR/SVD/eigh. Sampling, not proof.")
LEVEL_NOTE = ("Trusted: NumPy; sim/models/jw.py; Peps.to_tensor() as read-out of the prepared state (decided under C11). A windowed contraction (measure_nsite of EnvCTM) is held to exactness only "
              "when the discarded weight observed by the external zipper probe is at round-off level.")
TECHNIQUE = "seeded circuits, environment constructions and measurement-call sequences on small finite PEPS vs dense expectation values; external probes on bond_metric/zipper; knob schedules, cache faults at every lookup, LAPACK faults (deterministic simulation)"
RULE = ("one evaluation = one history (1-2 prepared states, 1-3 environments, 4-10 measurement / metric / evolution calls). Non-trivial = at least 4 returned values (or metrics) checked and, for "
        "disturbed runs, an effective disturbance; distinct = SHA-256 of (program, schedule, fired faults).")
REAL_STUB = "real: yastn.tn.fpeps (environments, measure functions, evolution_step_, gates), yastn.tn.mps (zipper, compression_, Env), everything below. stub: LRU container in instrumented-cache runs."
ASSUMPTIONS = ["open-boundary lattices up to 3x3 (spinful fermions up to 2x2/1x3), shallow circuits (each bond gated at most once) so that exact contraction stays cheap",
               "tolerance 1e-8 * scale on expectation values; metrics: anti-Hermitian part and most negative eigenvalue below 1e-9 * norm"]
CHUNK = 2
WALL_CAP = 1500


def budget(tier):
    return 400 if tier == "quick" else 6000


LATS = [(1, 2), (2, 1), (1, 3), (3, 1), (2, 2), (2, 2), (2, 2), (2, 3), (3, 2), (1, 4), (4, 1), (2, 3), (3, 2), (3, 3), (2, 4), (4, 2), (2, 4), (4, 2)]


def build(seed, tier):
    rng = core.stream(seed, "programs")
    swarm = core.stream(seed, "swarm")
    fam = rng.choice(["SpinlessFermions", "SpinlessFermions", "SpinlessFermions", "Spin12", "SpinfulFermions"])
    sym = rng.choice(e3.FAMILIES3[fam])
    dims = list(rng.choice(LATS))
    if fam == "SpinfulFermions":
        dims = list(rng.choice([(1, 2), (2, 1), (1, 3), (3, 1), (2, 2)]))
    arm = "disturbed" if swarm.random() < 0.5 else "baseline"
    cfg = {"family": fam, "sym": sym, "dims": dims, "tree": bool(rng.random() < 0.35 or min(dims) == 1)}
    if arm == "disturbed":
        cfg.update({"tensordot_policy": swarm.choice(e1run.POLICIES), "default_fusion": "hard"})
    else:
        cfg.update({"tensordot_policy": "fuse_to_matrix", "default_fusion": "hard"})
    spec = {"id": 0, "engine": "E3", "config": cfg, "universe": [], "tags": {}}
    wts = dict(e3.E3_WEIGHTS_C12)
    n = swarm.randint(5, 11)
    prog, digs, t = e1run.generate_cold(seed, spec, rng, n, wts, seed_ops=("p_prepare", "p_env"), cache_impl="real")
    ts = dict(spec)
    ts["program"] = prog
    world = {"cache_impl": "real", "maxsize": "default", "lapack": True, "fc": {}}
    if arm == "disturbed":
        world = {"cache_impl": swarm.choice(["real", "instrumented"]), "maxsize": swarm.choice(["default", 0, 1, 2, 8]), "lapack": True,
                 "fc": {"p_lookup": swarm.choice([0.0, 0.01, 0.04]), "lookup_kinds": ["evict", "clear_table", "clear_all", "resize"],
                        "p_lapack": swarm.choice([0.0, 0.1, 0.4])}}
    sched = [["op", 0, r["id"]] for r in prog]
    return {"format": 1, "property": PROP, "engine": "E3", "arm": arm, "seed": seed, "world": world, "tasks": [ts],
            "schedule": sched, "inner": {}, "mode": "draw", "rejected": getattr(t, "rejected", [])}


def after_op(w, task, rec, outs):
    pass


def on_exception(w, task, rec, exc):
    raise core.Violation(PROP, "exception-where-result-promised", "op %d %s %s raised %s: %s" % (rec["id"], rec["op"], rec["args"], type(exc).__name__, str(exc)[:150]), op=rec["op"])


def run_seed(seed, tier):
    case = build(seed, tier)
    v, w, info = e1prop.simulate(case, True, after_op, on_exception)
    info["checked_outputs"] += w.stats.get("values_checked", 0) + w.stats.get("metrics_checked", 0) + w.stats.get("evolutions_checked", 0)
    return e1prop.result(case, v, w, info, seed, sample_every=100)


def replay(case):
    v, _, _ = e1prop.simulate(_copy.deepcopy(case), False, after_op, on_exception)
    return v


extra_evidence = e1prop.extra_evidence
