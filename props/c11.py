"""C11 — a PEPS gate history equals the same operators applied to the dense state in fermionic order.

Seeded in-place gate histories on finite lattices (<= 6 sites; spin-1/2, spinless and spinful
fermions; every supported symmetry; pure product states and purifications): apply_gate_ with
predefined nn/local gates (real, imaginary and complex steps; bonds given in both orientations),
random two-site Hamiltonian exponentials (gate_nn_exp), two-site gates along longer paths
(fill_eye_in_gate), MPO gates from generate_mpo on 2-3 site paths, observers holding
copy/shallow_copy/clone, sums of PEPS; plus the lazy two-layer tensor contractions
(DoublePepsTensor.tensordot vs fuse_layers) and the gate matrices vs scipy.linalg.expm.
Oracle: dense Jordan-Wigner model in the PEPS fermionic order (geometry.sites()), evaluated after
every gate on psi.to_tensor().
"""
import copy as _copy

from sim import core, e1, e1prop, e1run, e3

PROP = "C11"
ENGINE = "E3"
LEVEL = "exploration"
LEVEL_TEXT = ("Baseline arm: seeded in-place gate histories vs a dense Jordan-Wigner reference evaluated after every apply_gate_ (state machine with observers). Disturbed arm (simulation proper): "
              "tensordot policy as a knob, cache faults at every metadata lookup inside apply_gate_, LAPACK-driver failures inside the gate's decompositions. Sampling, not proof.")
LEVEL_NOTE = ("Trusted: NumPy/SciPy expm; sim/models/jw.py (strings through system and ancilla legs in geometry.sites() order); Peps.to_tensor() as the read-out of the represented state "
              "(its own convention is cross-checked by product states whose dense form is known in closed form).")
TECHNIQUE = "seeded in-place gate histories on small PEPS lattices vs a dense Jordan-Wigner reference after every gate (baseline); knob schedules, cache faults at every lookup, LAPACK faults (disturbed, deterministic simulation)"
RULE = ("one evaluation = one history (6-14 ops) on one lattice with the dense state compared after every gate. Non-trivial = at least 3 gates (or lazy contractions / gate matrices) checked and, for "
        "disturbed runs, an effective disturbance; distinct = SHA-256 of (program, schedule, fired faults).")
REAL_STUB = "real: yastn.tn.fpeps (Peps, apply_gate_, gates, DoublePepsTensor, product_peps, add), yastn.tn.mps.generate_mpo, everything below. stub: LRU container in instrumented-cache runs."
ASSUMPTIONS = ["lattices of at most 6 sites with open boundaries; dense state <= 4096 amplitudes", "tolerance 1e-10 * scale", "no truncation: apply_gate_ is exact"]
CHUNK = 4


def budget(tier):
    return 800 if tier == "quick" else 10000


def build(seed, tier):
    rng = core.stream(seed, "programs")
    swarm = core.stream(seed, "swarm")
    fam = rng.choice(["SpinlessFermions", "SpinlessFermions", "SpinlessFermions", "Spin12", "SpinfulFermions", "SpinfulFermions"])
    sym = rng.choice(e3.FAMILIES3[fam])
    dims = list(rng.choice(e3.LATTICES))
    if fam == "SpinfulFermions":
        dims = list(rng.choice([(1, 2), (2, 1), (1, 3), (3, 1), (2, 2), (2, 2)]))
    arm = "disturbed" if swarm.random() < 0.5 else "baseline"
    cfg = {"family": fam, "sym": sym, "dims": dims}
    if dims[0] >= 2 and rng.random() < 0.25:
        cfg["boundary"] = "cylinder"
    if arm == "disturbed":
        cfg.update({"tensordot_policy": swarm.choice(e1run.POLICIES), "default_fusion": "hard"})
    else:
        cfg.update({"tensordot_policy": "fuse_to_matrix", "default_fusion": "hard"})
    spec = {"id": 0, "engine": "E3", "config": cfg, "universe": [], "tags": {}}
    wts = dict(e3.E3_WEIGHTS_C11)
    for k in ("p_copy", "p_add", "p_dpt", "p_gate_matrix"):
        if swarm.random() < 0.25:
            wts[k] = 0
    n = swarm.randint(6, 14)
    prog, digs, t = e1run.generate_cold(seed, spec, rng, n, wts, seed_ops=("p_init",), cache_impl="real")
    ts = dict(spec)
    ts["program"] = prog
    world = {"cache_impl": "real", "maxsize": "default", "lapack": True, "fc": {}}
    if arm == "disturbed":
        world = {"cache_impl": swarm.choice(["real", "instrumented", "instrumented"]), "maxsize": swarm.choice(["default", 0, 1, 2, 8]), "lapack": True,
                 "fc": {"p_lookup": swarm.choice([0.0, 0.02, 0.08]), "lookup_kinds": ["evict", "clear_table", "clear_all", "resize"],
                        "p_lapack": swarm.choice([0.0, 0.1, 0.4])}}
    sched = [["op", 0, r["id"]] for r in prog]
    return {"format": 1, "property": PROP, "engine": "E3", "arm": arm, "seed": seed, "world": world, "tasks": [ts],
            "schedule": sched, "inner": {}, "mode": "draw", "rejected": getattr(t, "rejected", [])}


def after_op(w, task, rec, outs):
    for q, s in enumerate(rec["out"]):
        x, sh = task.slots[s], task.shadows.get(s)
        if e3.is_peps(x) and sh is not None:
            e3.compare_state(task, x, sh, PROP, "op %d %s %s output" % (rec["id"], rec["op"], rec["args"]))
            w.stats["states_checked"] += 1
    if rec["op"] == "p_gate":
        # observers: every other PEPS object in the pool still represents its own model state
        for s, x in task.slots.items():
            if s != rec["in"][0] and e3.is_peps(x) and task.shadows.get(s) is not None:
                e3.compare_state(task, x, task.shadows[s], PROP, "observer slot %d (another PEPS object) after op %d apply_gate_" % (s, rec["id"]))
                w.stats["observers_checked"] += 1


def on_exception(w, task, rec, exc):
    raise core.Violation(PROP, "exception-where-result-promised", "op %d %s %s raised %s: %s" % (rec["id"], rec["op"], rec["args"], type(exc).__name__, str(exc)[:150]), op=rec["op"])


def run_seed(seed, tier):
    case = build(seed, tier)
    v, w, info = e1prop.simulate(case, True, after_op, on_exception)
    info["checked_outputs"] += w.stats.get("gates_checked", 0) + w.stats.get("double_layer_contractions_checked", 0) + w.stats.get("gate_matrices_checked", 0)
    r = e1prop.result(case, v, w, info, seed, sample_every=100)
    return r


def replay(case):
    v, _, _ = e1prop.simulate(_copy.deepcopy(case), False, after_op, on_exception)
    return v


extra_evidence = e1prop.extra_evidence
