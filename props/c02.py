"""C02 — every produced tensor is well-formed and conserves charge.

The invariant monitor (sim/monitor.py: I1 is_consistent, I2 independent re-derivation of the
selection rule / ordering / slices / sizes / types from public accessors and the model group
law, I3 fusion-history consistency, I4 exact zeros outside allowed sectors, I5 total charge
predicted by the model) is evaluated on every tensor returned by every op of every simulated
history, under all knob values and fault kinds.
"""
import copy as _copy

from sim import core, e1, e1prop, e1run, e2, e2w, e2prop, e3, monitor
from sim.containers import parts, meta_of
from sim.core import yastn

PROP = "C02"
ENGINE = "E1"
LEVEL = "exploration"
TECHNIQUE = "deterministic simulation: invariant monitor evaluated after every step of seeded operation histories under knob schedules, cache/LAPACK faults and buggify events"
RULE = ("one evaluation = one history (10-22 ops, ranks 0-6, all shipped symmetries, lazy/fused/charged/empty/diagonal states); the monitor runs on "
        "every returned tensor. Non-trivial = at least 4 tensors monitored and (baseline) or (disturbed with an effective disturbance); distinct = "
        "SHA-256 of (program, schedule, fired faults).")
REAL_STUB = "real: all yastn code. stub: LRU container in instrumented-cache runs; LAPACK primary-driver failure injected through a scipy proxy."
ASSUMPTIONS = ["group laws of the seven shipped symmetries re-implemented from the documentation (sim/models/group.py)",
               "unexpected exceptions are not C02 matters (no tensor was produced): counted in evidence"]
CHUNK = 8
WALL_CAP = 1200
WEIGHTS = dict(e1.DEFAULT_WEIGHTS)
WEIGHTS.update({"svd": 2, "factor_recombine": 1, "eigh_gram": 1, "swap_gate": 1, "blocks": 1, "block": 1.5, "flip": 1.5, "linalg_trunc": 1.5})


def budget(tier):
    return 4000 if tier == "quick" else 40000


def after_op(w, task, rec, outs):
    # containers (MPS/MPO, PEPS, environments): every tensor they hold, after every op that returned or modified them in place
    slots = list(rec["out"]) + ([rec["in"][0]] if e1.OPS[rec["op"]].inplace and rec["in"] else [])
    for s in slots:
        v = task.slots.get(s)
        if v is None or isinstance(v, yastn.Tensor) or meta_of(v) is None:
            continue
        for name, x in sorted(parts(v).items()):
            what = "op %d %s %s: tensor %s of the %s in slot %d" % (rec["id"], rec["op"], {k: a for k, a in rec["args"].items() if k in ("kind", "to", "fn")}, name, type(v).__name__, s)
            try:
                monitor.check_tensor(x, PROP, what)
            except core.Violation as vio:
                vio.where.update({"op": rec["op"], "kind": str(rec["args"].get("kind"))})
                raise
            w.stats["tensors_monitored"] += 1
            w.stats["container_tensors_monitored"] += 1
    for q, s in enumerate(rec["out"]):
        x = task.slots[s]
        if not isinstance(x, yastn.Tensor):
            continue
        what = "op %d %s %s output %d" % (rec["id"], rec["op"], {k: v for k, v in rec["args"].items() if k in ("kind", "axes", "conj", "axis", "mode")}, q)
        try:
            monitor.check_tensor(x, PROP, what)
            sh = task.shadows.get(s)
            if sh is not None and hasattr(sh, "n") and task.sym.nsym:
                if tuple(x.n) != tuple(sh.n):
                    raise core.Violation(PROP, "I5-total-charge", "%s: total charge %s, algebra dictates %s" % (what, x.n, sh.n))
                monitor.check_zero_outside(task, x, sh, PROP, what)
        except core.Violation as v:
            v.where.update({"op": rec["op"], "kind": str(rec["args"].get("kind"))})
            raise
        w.stats["tensors_monitored"] += 1


W_E2 = {"m_random_mps": 3, "m_random_mpo": 2, "m_product_mps": 1, "m_product_mpo": 1, "m_generate_mpo": 2, "m_from_tensor": 1, "m_add": 2, "m_scal": 1, "m_matmul": 2,
        "m_unary": 2, "m_inplace": 5, "m_zipper": 1.5, "m_compression": 1, "m_dmrg_start": 0.7, "m_dmrg_step": 2, "m_tdvp_start": 0.5, "m_tdvp_step": 1.5}
W_E3 = {"p_init": 1.2, "p_prepare": 0.8, "p_gate": 5, "p_copy": 0.7, "p_add": 1.5, "p_env": 2, "p_evolve": 2, "p_measure": 1}


def build_container(seed, tier, kind):
    if kind == "E2":
        return e2prop.build(seed, tier, PROP, W_E2, nops=(8, 14), Nmax=5, Nmin=2, p_disturbed=0.6)
    rng = core.stream(seed, "programs")
    swarm = core.stream(seed, "swarm")
    fam = rng.choice(["SpinlessFermions", "SpinlessFermions", "Spin12", "SpinfulFermions"])
    dims = list(rng.choice([(1, 2), (2, 1), (2, 2), (2, 2), (1, 3), (3, 1)] + ([(2, 3), (3, 2)] if fam != "SpinfulFermions" else [])))
    arm = "disturbed" if swarm.random() < 0.6 else "baseline"
    cfg = {"family": fam, "sym": rng.choice(e3.FAMILIES3[fam]), "dims": dims, "tree": min(dims) == 1,
           "tensordot_policy": swarm.choice(e1run.POLICIES) if arm == "disturbed" else "fuse_to_matrix", "default_fusion": "hard"}
    spec = {"id": 0, "engine": "E3", "config": cfg, "universe": [], "tags": {}}
    prog, digs, t = e1run.generate_cold(seed, spec, rng, swarm.randint(7, 12), dict(W_E3), seed_ops=("p_init",), cache_impl="real")
    ts = dict(spec)
    ts["program"] = prog
    world = {"cache_impl": "real", "maxsize": "default", "lapack": True, "fc": {}}
    if arm == "disturbed":
        world = {"cache_impl": swarm.choice(["real", "instrumented"]), "maxsize": swarm.choice(["default", 0, 1, 2, 8]), "lapack": True,
                 "fc": {"p_lookup": swarm.choice([0.0, 0.02, 0.05]), "lookup_kinds": ["evict", "clear_table", "clear_all", "resize"], "p_lapack": swarm.choice([0.0, 0.2, 0.5])}}
    return {"format": 1, "property": PROP, "engine": "E3", "arm": arm, "seed": seed, "world": world, "tasks": [ts],
            "schedule": [["op", 0, r["id"]] for r in prog], "inner": {}, "mode": "draw", "rejected": getattr(t, "rejected", [])}


def run_seed(seed, tier):
    kind = core.stream(seed, "object-world").choice(["E1", "E1", "E1", "E1", "E2", "E2", "E3"])
    if kind == "E1":
        case = e1prop.build(seed, tier, PROP, WEIGHTS, nops=(10, 22), p_disturbed=0.7)
    else:
        case = build_container(seed, tier, kind)
    v, w, info = e1prop.simulate(case, True, after_op, None)
    if kind != "E1":
        info["checked_outputs"] = max(info["checked_outputs"], w.stats.get("container_tensors_monitored", 0))
    r = e1prop.result(case, v, w, info, seed)
    r["world_kind"] = kind
    return r


def replay(case):
    v, _, _ = e1prop.simulate(_copy.deepcopy(case), False, after_op, None)
    return v


def extra_evidence(results):
    out = e1prop.extra_evidence(results)
    kinds = {}
    for r in results:
        kinds[r.get("world_kind", "E1")] = kinds.get(r.get("world_kind", "E1"), 0) + 1
    out["runs_by_object_world"] = {"tensors (E1)": kinds.get("E1", 0), "MPS/MPO incl. dmrg_/tdvp_ steps (E2)": kinds.get("E2", 0), "PEPS and environments (E3)": kinds.get("E3", 0)}
    return out
