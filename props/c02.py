"""C02 — every produced tensor is well-formed and conserves charge.

The invariant monitor (sim/monitor.py: I1 is_consistent, I2 independent re-derivation of the
selection rule / ordering / slices / sizes / types from public accessors and the model group
law, I3 fusion-history consistency, I4 exact zeros outside allowed sectors, I5 total charge
predicted by the model) is evaluated on every tensor returned by every op of every simulated
history, under all knob values and fault kinds.
"""
import copy as _copy

from sim import core, e1, e1prop, monitor
from sim.core import yastn

PROP = "C02"
ENGINE = "E1"
LEVEL = "exploration"
TECHNIQUE = "deterministic simulation: invariant monitor evaluated after every step of seeded operation histories under knob schedules, cache/LAPACK faults and buggify events"
RULE = ("one evaluation = one history (10-22 ops, ranks 0-6, all shipped symmetries, lazy/fused/charged/empty/diagonal states); the monitor runs on "
        "every returned tensor. Non-trivial = at least 4 tensors monitored and (baseline) or (disturbed with an effective disturbance); distinct = "
        "SHA-256 of (program, schedule, fired faults).")
REAL_STUB = "real: all yastn code. stub: LRU container in instrumented-cache runs; LAPACK primary-driver failure injected through a scipy proxy."
ASSUMPTIONS = ["group laws of the seven shipped symmetries re-implemented from the documentation (sim/models/group.py)",
               "unexpected exceptions are not C02 matters (no tensor was produced): counted in evidence"]
CHUNK = 8
WEIGHTS = dict(e1.DEFAULT_WEIGHTS)
WEIGHTS.update({"svd": 2, "factor_recombine": 1, "eigh_gram": 1, "swap_gate": 1, "blocks": 1, "block": 1.5, "flip": 1.5, "linalg_trunc": 1.5})


def budget(tier):
    return 1500 if tier == "quick" else 40000


def after_op(w, task, rec, outs):
    for q, s in enumerate(rec["out"]):
        x = task.slots[s]
        if not isinstance(x, yastn.Tensor):
            continue
        what = "op %d %s %s output %d" % (rec["id"], rec["op"], {k: v for k, v in rec["args"].items() if k in ("kind", "axes", "conj", "axis", "mode")}, q)
        try:
            monitor.check_tensor(x, PROP, what)
            sh = task.shadows.get(s)
            if sh is not None and hasattr(sh, "n") and task.sym.nsym:
                if tuple(x.n) != tuple(sh.n):
                    raise core.Violation(PROP, "I5-total-charge", "%s: total charge %s, algebra dictates %s" % (what, x.n, sh.n))
                monitor.check_zero_outside(task, x, sh, PROP, what)
        except core.Violation as v:
            v.where.update({"op": rec["op"], "kind": str(rec["args"].get("kind"))})
            raise
        w.stats["tensors_monitored"] += 1


def run_seed(seed, tier):
    case = e1prop.build(seed, tier, PROP, WEIGHTS, nops=(10, 22), p_disturbed=0.7)
    v, w, info = e1prop.simulate(case, True, after_op, None)
    return e1prop.result(case, v, w, info, seed)


def replay(case):
    v, _, _ = e1prop.simulate(_copy.deepcopy(case), False, after_op, None)
    return v


extra_evidence = e1prop.extra_evidence
