"""C07 — MPO construction and measurements realise Jordan-Wigner operators (thin).

 m_genmpo   : generate_mpo from random Hterm lists (any operator order, repeated sites, charged
              operators, charge-changing sums, inconsistent charges must be rejected, custom f_map,
              complex amplitudes) and the LaTeX-style Generator vs the dense Jordan-Wigner sum.
 m_measure_jw: measure_1site, measure_2site (every bond-pattern string and explicit pair lists in
              arbitrary order, i<j, i=j, i>j, dictionaries of operators), measure_nsite (site tuples
              with repetitions, arbitrary order), rdm vs expectation values of the dense state.
 m_sample   : sample(..., return_probabilities=True) with the backend RNG behind a SCRIPTED seam:
              the simulator chooses every uniform number so that the sampler is driven into every
              branch (just below / above each cumulative probability, first / last outcome,
              zero-probability outcomes); outcomes and returned probabilities vs Born.
 m_onsite   : on-site (anti)commutators of every operator family in every symmetry.
Everything except the scripted RNG and the disturbed arm (cache faults at every lookup, knobs,
operator-order permutations as schedules) is seeded sampling against the model, labelled baseline.
"""
import copy as _copy
import itertools

import numpy as np

from sim import core, e1, e1prop, e2, e2prop, e2w  # noqa: F401
from sim.core import yastn
from sim.models import jw, mps_dense

import yastn.tn.mps as mps
from yastn.backend import backend_np

PROP = "C07"
ENGINE = "E2"
LEVEL = "exploration"
LEVEL_TEXT = ("THIN as a simulation target. Baseline arm: seeded sampling of Hterm lists / operator tuples / site tuples / states vs a dense Jordan-Wigner model. Simulation proper: "
              "the sampler's RNG is replaced by a scripted generator that drives it into every branch (cuts on cumulative boundaries, first/last/zero-probability outcomes); operator-order "
              "permutations as schedules; cache faults at every lookup and knob variation in the disturbed arm. Sampling, not proof.")
LEVEL_NOTE = "Trusted: sim/models/jw.py (Jordan-Wigner convention written from the documentation), on-site operator matrices taken from to_numpy of the operator classes (their algebra is checked by m_onsite)."
TECHNIQUE = "seeded sampling vs a dense Jordan-Wigner model (baseline); scripted backend RNG driving the sampler through every branch, operator orders as schedules, cache faults at every lookup (disturbed, deterministic simulation)"
RULE = ("one evaluation = one program with 3-8 construction / measurement / sampling ops on chains of length 2-7. Non-trivial = at least one op involving a charged (string-carrying) operator or a "
        "scripted sampler run and, for disturbed runs, an effective disturbance; distinct = SHA-256 of (program, schedule, fired faults).")
REAL_STUB = "real: generate_mpo, Generator/latex2term, measure_*, rdm, sample, Env2. stub: the backend random generator during sample() (scripted uniforms); LRU container in instrumented runs."
ASSUMPTIONS = ["reduced density matrices are checked through Tr(rho fkron(O...)) = <O...> (the documented use), fkron itself is decided under C05"]
CHUNK = 4
WEIGHTS = {"m_random_mps": 2, "m_genmpo": 5, "m_measure_jw": 7, "m_sample": 3, "m_onsite": 0.6, "m_unary": 0.5, "m_add": 0.7, "m_scal": 0.5}


def budget(tier):
    return 4000 if tier == "quick" else 20000


def _generating():
    return getattr(core.current_world(), "generating", False)


def V(oracle, msg, **kw):
    return core.Violation(PROP, oracle, msg, **kw)


def op_charge(sp, nm):
    return tuple(sp.table[nm].n)


def total_charge(sp, names):
    n = sp.sym.zero()
    for nm in names:
        n = sp.sym.add(n, op_charge(sp, nm))
    return n


@e1.register
class MGenMpo(e1.Op):
    name = "m_genmpo"

    def nout(self, rec):
        return 1

    def gen(self, g):
        rng, t = g.rng, g.task
        sp = t.space
        names = sorted(sp.table)
        nt = rng.randint(1, 4)
        terms = []
        want = None
        for _ in range(nt):
            for _try in range(30):
                k = rng.choice([1, 2, 2, 3, 4])
                pos = [rng.randrange(t.N) for _ in range(k)]          # repeated sites allowed
                ops_ = [rng.choice(names) for _ in range(k)]
                n = total_charge(sp, ops_)
                if want is None or n == want:
                    want = n if want is None else want
                    amp = [round(rng.uniform(-1.5, 1.5), 3) or 0.5, round(rng.uniform(-1, 1), 3) if rng.random() < 0.3 else 0.0]
                    terms.append([amp, pos, ops_])
                    break
        inconsistent = False
        if rng.random() < 0.12 and sp.charged():
            # one more term of a DIFFERENT total charge: must be rejected
            nm = rng.choice(sp.charged())
            free = [s_ for s_ in range(t.N) if s_ not in terms[0][1]]     # (on an occupied site the product could vanish identically)
            if sp.sym.add(want, op_charge(sp, nm)) != want and free:
                extra = [[1.0, 0.0], [rng.choice(free)] + terms[0][1], [nm] + terms[0][2]]
                # rejection can be demanded only if neither the extra term nor every other term vanishes identically
                alive = [float(np.max(np.abs(sp.dense_product(t.N, tm[1], tm[2])))) > 0 for tm in terms]
                if float(np.max(np.abs(sp.dense_product(t.N, extra[1], extra[2])))) > 0 and any(alive):
                    terms.append(extra)
                    inconsistent = True
        f_map = None
        if rng.random() < 0.35:
            f_map = list(range(t.N))
            if rng.random() < 0.7:
                rng.shuffle(f_map)
        route = "latex" if (sp.family in ("SpinlessFermions", "Spin12") and not inconsistent and f_map is None and rng.random() < 0.3) else "hterm"
        return {"op": "m_genmpo", "in": [], "args": {"terms": terms, "f_map": f_map, "inconsistent": inconsistent, "route": route}}

    def run(self, task, rec, ins):
        ar, sp = rec["args"], task.space
        I = mps.product_mpo(sp.table["I"], task.N)
        if ar["route"] == "latex":
            gen = mps.Generator(task.N, sp.ops)
            parts, params = [], {}
            for k, (amp, pos, names) in enumerate(ar["terms"]):
                params["a%d" % k] = complex(*amp) if amp[1] else amp[0]
                idx = ["x%d" % q for q in range(len(pos))]
                params["P%d" % k] = [tuple(pos)] if len(pos) > 1 else [pos[0]]
                parts.append("\\sum_{%s \\in P%d} a%d " % (",".join(idx), k, k) + " ".join("%s_{%s}" % (nm, ix) for nm, ix in zip(names, idx)))
            H = gen.mpo_from_latex(" + ".join(parts), parameters=params)
            return [H]
        kw = {"f_map": tuple(ar["f_map"])} if ar["f_map"] is not None else {}
        try:
            H = mps.generate_mpo(I, sp.hterms(ar["terms"]), **kw)
        except yastn.YastnError:
            if ar["inconsistent"]:
                core.current_world().stats["inconsistent_charges_rejected"] += 1
                return [None]
            raise
        if ar["inconsistent"] and not _generating():
            raise V("inconsistent-charges-accepted", "generate_mpo accepted terms of different total charge: %s" % ([t_[2] for t_ in ar["terms"]],))
        return [H]

    def shadow(self, task, rec, sins, outs, ins=None):
        ar, sp = rec["args"], task.space
        if outs[0] is None:
            return [None]
        H = sp.dense_terms(task.N, ar["terms"], f_map=ar["f_map"])
        if any(any(op_charge(sp, nm)) for _, _, names in ar["terms"] for nm in names) and sp.fermionic:
            core.current_world().stats["string_carrying_ops"] += 1
        return [H.reshape((sp.d,) * (2 * task.N))]


def expect(sp, N, bra, ket, pos, names):
    M = sp.dense_product(N, pos, names)
    return complex(np.vdot(bra, M @ ket))


BOND_PATTERNS = ["<", "=", ">", "a", "r1", "r-1", "r2", "r-2", "pr1", "<=", "r1r2", "pr-1"]


@e1.register
class MMeasureJW(e1.Op):
    name = "m_measure_jw"
    creates = True

    def nout(self, rec):
        return 0

    def gen(self, g):
        rng, t = g.rng, g.task
        sp = t.space
        ket = e2.pick(g, lambda v, sh: sh is not None and v.nr_phys == 1 and e2.sig(v) == e2.sig(g.task.slots[min(e2.objs(g.task, lambda v2, s2: v2.nr_phys == 1))]))
        if ket is None:
            return None
        kind = rng.choice(["1site", "2site", "2site", "2site", "nsite", "nsite", "rdm", "rdm"])
        if kind == "rdm":     # states whose norm sits in .factor (scalar multiples, sums, canonize_(normalize=False)) are the interesting operands
            sig0 = e2.sig(g.val(ket))
            fk = [s for s in e2.objs(g.task, lambda v, sh: sh is not None and v.nr_phys == 1 and e2.sig(v) == sig0 and e2.nonzero(sh) and abs(complex(v.factor) - 1) > 1e-12)]
            if fk and rng.random() < 0.6:
                ket = rng.choice(fk)
        names = sorted(sp.table)
        args = {"kind": kind}
        if kind == "1site":
            args["op"] = rng.choice(names)
            args["form"] = rng.choice(["tensor", "dict", "sites"])
            args["sites"] = rng.sample(range(t.N), rng.randint(1, t.N))      # arbitrary order: dict insertion order / sites= order are the caller's (seeded C07-c)
        elif kind == "2site":
            O = rng.choice(names)
            # P of opposite charge so that the correlator can be non-zero between equal-charge states
            cands = [nm for nm in names if sp.sym.add(op_charge(sp, O), op_charge(sp, nm)) == sp.sym.zero()]
            P = rng.choice(cands or names)
            args.update({"O": O, "P": P})
            form = rng.choice(["pattern", "pattern", "pairs", "pairs", "single"])
            args["form"] = form
            if form == "pattern":
                args["bonds"] = rng.choice(BOND_PATTERNS)
            elif form == "pairs":
                prs = [[i, j] for i in range(t.N) for j in range(t.N)]
                k = rng.randint(1, min(6, len(prs)))
                args["bonds"] = rng.sample(prs, k)             # arbitrary (unsorted) order
            else:
                args["bonds"] = [rng.randrange(t.N), rng.randrange(t.N)]
            args["dicts"] = rng.random() < 0.2
        elif kind == "nsite":
            k = rng.choice([2, 3, 3, 4])
            for _try in range(40):
                ops_ = [rng.choice(names) for _ in range(k)]
                if total_charge(sp, ops_) == sp.sym.zero():
                    break
            else:
                ops_ = ["I"] * k
            args["ops"] = ops_
            args["sites"] = [rng.randrange(t.N) for _ in range(k)]      # repetitions and arbitrary order
            args["perm"] = rng.sample(range(k), k)
        else:
            k = rng.choice([1, 2, 2, 3])
            if k > t.N:
                k = t.N
            args["sites"] = rng.sample(range(t.N), k)
            for _try in range(40):
                ops_ = [rng.choice(names) for _ in range(k)]
                if total_charge(sp, ops_) == sp.sym.zero():
                    break
            else:
                ops_ = ["I"] * k
            args["ops"] = ops_
        return {"op": "m_measure_jw", "in": [ket], "args": args}

    def run(self, task, rec, ins):
        ar, sp, N = rec["args"], task.space, task.N
        psi = ins[0]
        kind = ar["kind"]
        w = core.current_world()
        if kind == "1site":
            O = sp.table[ar["op"]]
            if ar["form"] == "tensor":
                res = mps.measure_1site(psi, O, psi)
                sites = list(range(N))
            elif ar["form"] == "dict":
                res = mps.measure_1site(psi, {s: O for s in ar["sites"]}, psi)
                sites = ar["sites"]
            else:
                res = mps.measure_1site(psi, O, psi, sites=ar["sites"])
                sites = ar["sites"]
            self._res = ("1site", res, sites)
        elif kind == "2site":
            O, P = sp.table[ar["O"]], sp.table[ar["P"]]
            if ar["dicts"]:
                O = {s: O for s in reversed(range(N))}                   # insertion order of operator dictionaries is arbitrary
                P = {s: P for s in list(range(1, N, 2)) + list(range(0, N, 2))}
            b = ar["bonds"]
            if ar["form"] == "pattern":
                res = mps.measure_2site(psi, O, P, psi, bonds=b)
            elif ar["form"] == "pairs":
                res = mps.measure_2site(psi, O, P, psi, bonds=[tuple(x) for x in b])
            else:
                res = mps.measure_2site(psi, O, P, psi, bonds=tuple(b))
            self._res = ("2site", res, None)
        elif kind == "nsite":
            ops_ = [sp.table[nm] for nm in ar["ops"]]
            res = mps.measure_nsite(psi, *ops_, ket=psi, sites=list(ar["sites"]))
            self._res = ("nsite", res, None)
        else:
            rho = mps.rdm(psi, *ar["sites"])
            self._res = ("rdm", rho, None)
        return []

    def shadow(self, task, rec, sins, outs, ins=None):
        if _generating():
            return []
        ar, sp, N = rec["args"], task.space, task.N
        w = core.current_world()
        d = sins[0].reshape(-1)
        kind, res, sites = self._res
        nrm2 = float(np.vdot(d, d).real)
        tol = 1e-9 * max(1.0, nrm2)
        charged = False
        if kind == "1site":
            if set(res.keys()) != set(sites):
                raise V("measure_1site-keys", "op %d: measure_1site returned sites %s, requested %s" % (rec["id"], sorted(res.keys()), sites))
            for s in sites:
                ref = expect(sp, N, d, d, [s], [ar["op"]])
                if abs(complex(res[s]) - ref) > tol:
                    raise V("measure_1site", "op %d: <%s_%d> = %r, dense Jordan-Wigner value %r" % (rec["id"], ar["op"], s, res[s], ref))
            charged = any(op_charge(sp, ar["op"]))
        elif kind == "2site":
            if ar["form"] == "pattern":
                pairs = pattern_pairs(ar["bonds"], N)
            elif ar["form"] == "pairs":
                pairs = [tuple(x) for x in ar["bonds"]]
            else:
                pairs = [tuple(ar["bonds"])]
            if ar["form"] == "single":
                got = {pairs[0]: res}
            else:
                got = dict(res)
                if set(got.keys()) != set(pairs):
                    raise V("measure_2site-keys", "op %d: measure_2site(bonds=%s) returned bonds %s, expected %s" % (rec["id"], ar["bonds"], sorted(got.keys()), sorted(set(pairs))))
            for (i, j) in set(pairs):
                ref = expect(sp, N, d, d, [i, j], [ar["O"], ar["P"]])
                if abs(complex(got[(i, j)]) - ref) > tol:
                    raise V("measure_2site", "op %d: <%s_%d %s_%d> (bonds=%s) = %r, dense Jordan-Wigner value %r" % (rec["id"], ar["O"], i, ar["P"], j, ar["bonds"], got[(i, j)], ref))
            charged = any(op_charge(sp, ar["O"]))
        elif kind == "nsite":
            ref = expect(sp, N, d, d, ar["sites"], ar["ops"])
            if abs(complex(res) - ref) > tol:
                raise V("measure_nsite", "op %d: <%s at %s> = %r, dense Jordan-Wigner value %r" % (rec["id"], ar["ops"], ar["sites"], res, ref))
            charged = any(any(op_charge(sp, nm)) for nm in ar["ops"])
        else:
            rho = res
            k = len(ar["sites"])
            tr = complex(yastn.trace(rho, axes=(tuple(range(0, 2 * k, 2)), tuple(range(1, 2 * k, 2)))).to_number()) if k else 1.0
            if abs(tr - nrm2) > tol:
                raise V("rdm-trace", "op %d: trace of the reduced density matrix on %s = %r, |psi|^2 = %r" % (rec["id"], ar["sites"], tr, nrm2))
            O = yastn.fkron(*[sp.table[nm] for nm in ar["ops"]]) if k > 1 else sp.table[ar["ops"][0]]
            # Tr(rho O): rho legs (k0,b0,k1,b1,..), O legs (k0',b0',...): contract rho.k_i with O.b_i and rho.b_i with O.k_i
            ax_r = tuple(range(2 * k))
            ax_o = tuple(x for i in range(k) for x in (2 * i + 1, 2 * i))
            val = complex(yastn.tensordot(rho, O, axes=(ax_r, ax_o)).to_number())
            ref = expect(sp, N, d, d, ar["sites"], ar["ops"])
            if abs(val - ref) > tol:
                raise V("rdm", "op %d: Tr(rdm%s fkron%s) = %r, dense Jordan-Wigner value %r" % (rec["id"], tuple(ar["sites"]), tuple(ar["ops"]), val, ref))
            charged = any(any(op_charge(sp, nm)) for nm in ar["ops"])
        if charged and sp.fermionic:
            w.stats["string_carrying_ops"] += 1
        w.stats["measurements_checked"] += 1
        return []


def pattern_pairs(b, N):
    """The documented meaning of the bond-pattern strings."""
    if "a" in b:
        return [(i, j) for i in range(N) for j in range(N)]
    pairs = set()
    s = b
    if "<" in s:
        pairs |= {(i, j) for i in range(N) for j in range(i + 1, N)}
        s = s.replace("<", "")
    if "=" in s:
        pairs |= {(i, i) for i in range(N)}
        s = s.replace("=", "")
    if ">" in s:
        pairs |= {(i, j) for i in range(N) for j in range(i)}
        s = s.replace(">", "")
    pbc = "p" in s
    s = s.replace("p", "")
    for r in s.split("r")[1:]:
        r = int(r)
        for i in range(N):
            if pbc:
                pairs.add((i, (i + r) % N))
            elif 0 <= i + r < N:
                pairs.add((i, i + r))
    return sorted(pairs)


@e1.register
class MSample(e1.Op):
    """sample() with the backend generator behind a scripted seam (fault kind F10 rng_script)."""
    name = "m_sample"

    def nout(self, rec):
        return 0

    def gen(self, g):
        rng, t = g.rng, g.task
        std = e2.sig(g.task.slots[min(e2.objs(g.task, lambda v2, s2: v2.nr_phys == 1))])      # (conj() flips the signatures the projectors must match)
        ket = e2.pick(g, lambda v, sh: sh is not None and v.nr_phys == 1 and v.pC is None and e2.sig(v) == std)
        if ket is None:
            return None
        number = rng.randint(1, 4)
        strategy = [[rng.choice(["below", "above", "first", "last", "mid", "mid"]) for _ in range(t.N)] for _ in range(number)]
        return {"op": "m_sample", "in": [ket], "args": {"number": number, "strategy": strategy, "pick": [[rng.random() for _ in range(t.N)] for _ in range(number)],
                                                       "projector_form": rng.choice(["list", "dict", "matrix"])}}

    def run(self, task, rec, ins):
        ar, sp, N = rec["args"], task.space, task.N
        psi = ins[0]
        d = e2.dense_of(task, psi)
        nrm = float(np.linalg.norm(d.reshape(-1)))
        if nrm == 0:
            return []
        dd = d / nrm
        number = ar["number"]
        D = sp.d
        # model: conditional Born probabilities along the chain for each sample, cuts chosen by strategy
        script = np.zeros((N, number))
        pred = np.zeros((number, N), dtype=np.int64)
        prob = np.ones(number)
        for k in range(number):
            cur = dd
            for n in range(N):
                # marginal of site n given earlier outcomes (cur has axes n..N-1)
                p = np.sum(np.abs(cur.reshape(D, -1)) ** 2, axis=1)
                tot = float(np.sum(p))
                p = p / tot
                cum = np.cumsum(p)
                strat = ar["strategy"][k][n]
                x = ar["pick"][k][n]
                j = int(x * D) % D
                eps = 1e-7
                if strat == "below":
                    cut = max(0.0, cum[j] - eps)
                elif strat == "above":
                    cut = min(1.0 - 1e-12, cum[j] + eps)
                elif strat == "first":
                    cut = 0.0
                elif strat == "last":
                    cut = 1.0 - 1e-12
                else:
                    cut = x
                ind = int(np.sum(cum < cut))
                ind = min(ind, D - 1)
                # a cut within 1e-8 of a boundary is ambiguous to round-off: nudge it inside
                if np.any(np.abs(cum - cut) < 1e-9):
                    cut = cut + 2e-9 if cut + 2e-9 < 1.0 - 1e-9 else cut - 2e-9
                cut = float(min(max(cut, 0.0), 1.0 - 1e-12))       # a uniform generator returns numbers in [0, 1)
                ind = min(int(np.sum(cum < cut)), D - 1)
                script[n, k] = cut
                pred[k, n] = ind
                prob[k] *= p[ind]
                if p[ind] <= 0:
                    # a zero-probability outcome was forced (cut beyond the support): the model stops predicting
                    pred[k, n:] = -1
                    break
                cur = cur.reshape(D, -1)[ind].reshape(cur.shape[1:]) if n < N - 1 else cur
        vecs = [sp.vec(i) for i in range(D)]
        if ar["projector_form"] == "dict":
            projectors = {i: v for i, v in enumerate(vecs)}
        elif ar["projector_form"] == "matrix":
            projectors = [yastn.tensordot(v, v.conj(), axes=((), ())) for v in vecs]
        else:
            projectors = vecs
        scripted = core.ScriptedRNG(script.reshape(-1).tolist(), fallback_seed=rec["id"])
        saved = backend_np.rng["rng"]
        backend_np.rng["rng"] = scripted
        w = core.current_world()
        try:
            samples, probs = mps.sample(psi, projectors, number=number, return_probabilities=True)
        finally:
            backend_np.rng["rng"] = saved
        w.stats["fault_rng_script"] += 1
        if _generating():
            return []
        if scripted.i != N * number:
            raise V("sampler-rng-consumption", "op %d: sampler drew %d uniform numbers, expected %d (N x number)" % (rec["id"], scripted.i, N * number))
        for k in range(number):
            if np.any(pred[k] < 0):
                w.probes["sampler_forced_zero_probability_branch"] += 1
                continue
            if list(samples[k]) != list(pred[k]):
                raise V("sampler-outcome", "op %d: sample %d with scripted cuts %s gave %s, Born conditionals predict %s" % (rec["id"], k, script[:, k], list(samples[k]), list(pred[k])))
            if abs(probs[k] - prob[k]) > 1e-9 * max(1.0, prob[k]):
                raise V("sampler-probability", "op %d: sample %s reported with probability %r, Born probability of that configuration %r" % (rec["id"], list(samples[k]), probs[k], prob[k]))
            # cross-check: Born probability of the configuration from the dense state directly
            born = float(abs(dd[tuple(samples[k])]) ** 2)
            if abs(born - probs[k]) > 1e-9:
                raise V("sampler-probability", "op %d: configuration %s has Born probability %r, sampler reports %r" % (rec["id"], list(samples[k]), born, probs[k]))
            for n in range(N):
                w.probes["sampler_branch_%s" % ar["strategy"][k][n]] += 1
        w.stats["scripted_sampler_runs"] += 1
        return []


@e1.register
class MOnsite(e1.Op):
    name = "m_onsite"

    def nout(self, rec):
        return 0

    def gen(self, g):
        return {"op": "m_onsite", "in": [], "args": {}}

    def run(self, task, rec, ins):
        if _generating():
            return []
        sp = task.space
        D = sp.dense_ops
        I = np.eye(sp.d)
        f = sp.family

        def eq(a, b, what):
            if not np.allclose(a, b, atol=1e-13):
                raise V("onsite-algebra", "%s/%s: %s" % (f, sp.symname, what))
        if f == "SpinlessFermions":
            c, cp, n = D["c"], D["cp"], D["n"]
            eq(c @ cp + cp @ c, I, "{c, c+} != 1")
            eq(c @ c, 0 * I, "c^2 != 0")
            eq(cp @ c, n, "c+ c != n")
            eq(cp, c.conj().T, "c+ is not the adjoint of c")
        elif f == "SpinfulFermions":
            for s_ in "ud":
                c, cp, n = D["c" + s_], D["cp" + s_], D["n" + s_]
                eq(c @ cp + cp @ c, I, "{c_%s, c+_%s} != 1" % (s_, s_))
                eq(c @ c, 0 * I, "c_%s^2 != 0" % s_)
                eq(cp @ c, n, "c+_%s c_%s != n_%s" % (s_, s_, s_))
                eq(cp, c.conj().T, "c+_%s is not the adjoint of c_%s" % (s_, s_))
            cu, cd, cpd = D["cu"], D["cd"], D["cpd"]
            if sp.symname == "U1xU1":
                eq(cu @ cd - cd @ cu, 0 * I, "[c_u, c_d] != 0 for distinguishable species")
                eq(cu @ cpd - cpd @ cu, 0 * I, "[c_u, c+_d] != 0 for distinguishable species")
            else:
                eq(cu @ cd + cd @ cu, 0 * I, "{c_u, c_d} != 0")
                eq(cu @ cpd + cpd @ cu, 0 * I, "{c_u, c+_d} != 0")
        elif f == "Spin12":
            z, sp_, sm = D["z"], D["sp"], D["sm"]
            eq(sp_ @ sm - sm @ sp_, z, "[S+, S-] != sigma_z")
            eq(z @ z, I, "sigma_z^2 != 1")
            eq(sp_, sm.conj().T, "S+ is not the adjoint of S-")
        elif f == "Spin1":
            z, sp_, sm = D["sz"], D["sp"], D["sm"]
            eq(sp_ @ sm - sm @ sp_, 2 * z, "[S+, S-] != 2 Sz")
            eq(z @ sp_ - sp_ @ z, sp_, "[Sz, S+] != S+")
            eq(sp_, sm.conj().T, "S+ is not the adjoint of S-")
        core.current_world().stats["onsite_algebra_checked"] += 1
        return []


def after_op(w, task, rec, outs):
    for q, s in enumerate(rec["out"]):
        v = task.slots[s]
        if v is None:
            continue
        what = "op %d %s %s" % (rec["id"], rec["op"], {k: x for k, x in rec["args"].items() if k in ("terms", "f_map", "route")})
        try:
            e2.compare_dense(task, v, task.shadows.get(s), PROP, what)
        except core.Violation as vv:
            if rec["op"] == "m_genmpo":
                vv.oracle = "generate_mpo-dense-" + vv.oracle
            raise


def on_exception(w, task, rec, exc):
    if rec["op"] in ("m_random_mps", "m_random_mpo") or "zero state" in str(exc):
        return
    if e2.known_meta_product(task, rec, exc):
        return
    raise core.Violation(PROP, "exception-where-result-promised", "op %d %s %s raised %s: %s" % (rec["id"], rec["op"], rec["args"], type(exc).__name__, str(exc)[:160]), op=rec["op"])


def run_seed(seed, tier):
    case = e2prop.build(seed, tier, PROP, WEIGHTS, nops=(5, 10), seed_ops=("m_random_mps", "m_random_mps"), Nmax=7, Nmin=2,
                        families=["SpinlessFermions", "SpinlessFermions", "SpinfulFermions", "SpinfulFermions", "Spin12", "Spin1"], lapack=False)
    v, w, info = e1prop.simulate(case, True, after_op, on_exception)
    info["checked_outputs"] = max(info["checked_outputs"], (w.stats.get("measurements_checked", 0) + w.stats.get("scripted_sampler_runs", 0)) * 2)
    r = e1prop.result(case, v, w, info, seed, sample_every=100)
    content = w.stats.get("string_carrying_ops", 0) > 0 or w.stats.get("scripted_sampler_runs", 0) > 0
    r["nontrivial"] = bool(content and (case["arm"] == "baseline" or r["disturbed_effective"]))
    return r


def replay(case):
    v, _, _ = e1prop.simulate(_copy.deepcopy(case), False, after_op, on_exception)
    return v


extra_evidence = e1prop.extra_evidence
