"""C17 — serialisation round-trips every object exactly.

"serialise -> simulated storage -> deserialise" is an op inside E1/E2/E3 histories, applied to
whatever state the history produced (diagonal, nested-fused, lazily permuted, empty, complex,
charged tensors; MPS/MPO with and without central block and non-unit factor; PEPS; environments).
Routes: to_dict(level 0/1/2) -> from_dict (method and yastn.from_dict), split/combine,
numpy.save/load through io.BytesIO, save_to_hdf5/load_from_hdf5 through an in-memory h5py file
(core driver, nothing touches the disk), legacy save_to_dict/load_from_dict, and generation skew
(a generation-1 dictionary without 'trans' read by the current reader).
Oracle: the restored object is observationally identical (legs incl. fusion history, charge,
dtype, dense values exactly, same results under a follow-up transpose / unfuse / contraction drawn
from the seed); to_dict(meta=...) is linear, norm preserving and fills zero blocks; an
incompatible config or meta must raise YastnError.
No storage faults are injected: the property promises nothing about torn or truncated files.
Disturbed arm: cache faults around and inside (de)serialisation (the meta path uses the
embedding/mask/addition tables), knob variation, in-place mutation of the source after to_dict.
"""
import copy as _copy
import io
import warnings

import numpy as np

from sim import core, e1, e1prop, e1run, e2, e2prop, e3
from sim.containers import parts, meta_of
from sim.core import yastn

import yastn.tn.mps as mps
import yastn.tn.fpeps as fpeps

PROP = "C17"
ENGINE = "E1"
LEVEL = "exploration"
LEVEL_TEXT = ("Seeded histories in which serialise/deserialise through simulated storage (BytesIO, in-memory HDF5) is one more operation applied to whatever object state "
              "the history produced (tensors, MPS/MPO, PEPS, environments, two-layer PEPS tensors with charge swaps); observational-equality oracle incl. follow-up behaviour; meta route checked for linearity/norm/zero filling; incompatible "
              "config/meta must be rejected. Disturbed arm: cache faults at every lookup, knob variation, generation skew. Sampling, not proof. No storage faults (the property promises nothing under them).")
LEVEL_NOTE = "Trusted: numpy.save/load and h5py encoders (real code, in-memory storage); io.BytesIO / h5py core driver stand in for the file system."
TECHNIQUE = "deterministic simulation: serialisation through simulated storage as an op inside seeded histories (lazy/fused/aliased/empty objects), writer/reader generation skew, cache faults at every lookup of the embedding tables; observational-equality oracle with follow-up operations"
RULE = ("one evaluation = one history with 2-6 round trips over the routes {dict level 0/1/2, split/combine, numpy BytesIO, HDF5 in-memory, legacy dict, generation-1 dict, meta}. "
        "Non-trivial = at least one round trip of an object in a non-default state (pending transpose, fused legs, diagonal, empty, complex, charged) and, for disturbed "
        "runs, an effective disturbance; distinct = SHA-256 of (program, schedule, fired faults).")
REAL_STUB = "real: yastn (de)serialisers, numpy.save/load, h5py. stub: the file system (io.BytesIO; h5py File(driver='core', backing_store=False))."
ASSUMPTIONS = ["routes that materialise by documentation (save_to_hdf5, legacy save_to_dict consume the pending transpose) must still restore an observationally identical object"]
CHUNK = 6
WALL_CAP = 1200
WEIGHTS = {"rand": 3, "rand_diag": 1, "transpose": 3, "fuse": 3, "unfuse": 1, "conj": 1, "tensordot": 1.5, "add": 1, "add_leg": 1, "diag": 0.5, "scal": 0.5,
           "meta_to_hard": 0.3, "svd": 0.7, "serial": 8, "serial_meta": 4, "serial_reject": 1.5, "pair_unary": 1, "fuse_pair": 1, "apply_mask": 0.5}


def budget(tier):
    return 6000 if tier == "quick" else 40000


def _generating():
    return getattr(core.current_world(), "generating", False)


def roundtrip(x, route, level, cfg):
    """One pass through simulated storage.  Returns the restored object."""
    if route == "method":
        return type(x).from_dict(x.to_dict(level=level))
    if route == "function":
        return yastn.from_dict(x.to_dict(level=level))
    if route == "split":
        data, meta = yastn.split_data_and_meta(x.to_dict(level=level))
        return yastn.from_dict(yastn.combine_data_and_meta(data, meta))
    if route == "numpy":
        buf = io.BytesIO()
        np.save(buf, x.to_dict(level=max(level, 1)), allow_pickle=True)
        buf.seek(0)
        d = np.load(buf, allow_pickle=True).item()
        return yastn.from_dict(d)
    if route == "numpy_split":
        data, meta = yastn.split_data_and_meta(x.to_dict(level=2))
        buf = io.BytesIO()
        np.savez(buf, *data)
        buf.seek(0)
        z = np.load(buf)
        data2 = tuple(z["arr_%d" % i] for i in range(len(data)))
        return yastn.from_dict(yastn.combine_data_and_meta(data2, meta))
    if route == "hdf5":
        import h5py
        _H5[0] += 1
        name = "mem-%d.h5" % _H5[0]
        with h5py.File(name, "w", driver="core", backing_store=False) as f:
            x.save_to_hdf5(f, "state/x")
            return yastn.load_from_hdf5(cfg, f, "state/x")
    if route == "legacy":
        with warnings.catch_warnings():
            warnings.simplefilter("ignore")
            d = x.save_to_dict()
        return yastn.load_from_dict(cfg, d)
    if route == "gen1":
        d = x.to_dict(level=level)
        if tuple(x.trans) == tuple(range(x.ndim_n)):
            d.pop("trans", None)          # written by the generation that had no 'trans' field
            d["dict_ver"] = 1
        return yastn.Tensor.from_dict(d)
    raise ValueError(route)


def observationally_equal(a, b, rng_seed, what):
    """legs incl. history, charge, dtype, dense values, and follow-up behaviour."""
    import random
    V = core.Violation
    if type(a) is not type(b):
        raise V(PROP, "type", "%s: restored %s from %s" % (what, type(b).__name__, type(a).__name__))
    if a.isdiag != b.isdiag or a.ndim != b.ndim:
        raise V(PROP, "structure", "%s: rank/diag differ (%s,%s) vs (%s,%s)" % (what, a.ndim, a.isdiag, b.ndim, b.isdiag))
    if tuple(a.n) != tuple(b.n):
        raise V(PROP, "charge", "%s: charge %s restored as %s" % (what, a.n, b.n))
    if a.yastn_dtype != b.yastn_dtype:
        raise V(PROP, "dtype", "%s: dtype %s restored as %s" % (what, a.yastn_dtype, b.yastn_dtype))
    if a.get_legs() != b.get_legs():
        raise V(PROP, "legs", "%s: legs (incl. fusion history) differ after the round trip" % what)
    if a.get_legs(native=True) != b.get_legs(native=True):
        raise V(PROP, "legs", "%s: native legs differ after the round trip" % what)
    if core.config_canon(a.config)[:2] != core.config_canon(b.config)[:2]:
        raise V(PROP, "config", "%s: symmetry / fermionic flags differ after the round trip" % what)
    da, db = a.to_numpy(), b.to_numpy()
    if da.shape != db.shape or not np.array_equal(da, db):
        raise V(PROP, "values", "%s: dense values differ after the round trip" % what)
    # follow-ups: same pending-permutation semantics
    r = random.Random(rng_seed)
    if a.ndim >= 2 and not a.isdiag:
        p = list(range(a.ndim))
        r.shuffle(p)
        ta, tb = a.transpose(axes=tuple(p)), b.transpose(axes=tuple(p))
        if not np.array_equal(ta.to_numpy(), tb.to_numpy()) or ta.get_legs() != tb.get_legs():
            raise V(PROP, "follow-up-transpose", "%s: transpose%s of the restored object differs" % (what, tuple(p)))
        k = r.randrange(a.ndim)
        others = tuple(i for i in range(a.ndim) if i != k)      # contract everything but leg k: a small rank-2 result
        ca = yastn.tensordot(a, a, axes=(others, others), conj=(0, 1))
        cb = yastn.tensordot(b, b, axes=(others, others), conj=(0, 1))
        sc = max(1.0, float(ca.norm()))
        if ca.get_legs() != cb.get_legs() or not np.allclose(ca.to_numpy(), cb.to_numpy(), rtol=0, atol=1e-12 * sc):
            raise V(PROP, "follow-up-contraction", "%s: contraction of the restored object (all legs but %d) differs" % (what, k))
    def _unf(x):
        try:
            return e1.unfuse_all(x)
        except yastn.YastnError:      # e.g. legs produced by yastn.block() cannot be unfused: then neither can the restored ones
            return None
    ua, ub = _unf(a), _unf(b)
    if (ua is None) != (ub is None):
        raise V(PROP, "follow-up-unfuse", "%s: complete unfusing works for only one of (source, restored)" % what)
    if ua is not None and (ua.get_legs() != ub.get_legs() or not np.array_equal(ua.to_numpy(), ub.to_numpy())):
        raise V(PROP, "follow-up-unfuse", "%s: complete unfusing of the restored object differs" % what)
    if abs(float(a.norm()) - float(b.norm())) > 1e-14 * max(1.0, float(a.norm())):
        raise V(PROP, "values", "%s: norm differs" % what)


_H5 = [0]
ROUTES = ("method", "function", "split", "numpy", "numpy_split", "hdf5", "legacy", "gen1")


def state_tags(x):
    tags = []
    if tuple(x.trans) != tuple(range(x.ndim_n)):
        tags.append("lazy")
    if any(m != (1,) for m in x.mfs):
        tags.append("meta")
    if any(h.tree != (1,) for h in x.hfs):
        tags.append("hard")
    if x.isdiag:
        tags.append("diag")
    if x.size == 0:
        tags.append("empty")
    if x.is_complex():
        tags.append("complex")
    if any(x.n):
        tags.append("charged")
    return tags


@e1.register
class OpSerial(e1.Op):
    name = "serial"

    def gen(self, g):
        a = g.pick_tensor()
        if a is None:
            return None
        return {"op": "serial", "in": [a], "args": {"route": g.rng.choice(ROUTES), "level": g.rng.choice([0, 1, 2]), "fseed": g.rng.randrange(1 << 30)}}

    def run(self, task, rec, ins):
        a, ar = ins[0], rec["args"]
        before = core.tensor_canon(a)
        b = roundtrip(a, ar["route"], ar["level"], task.cfg)
        if not _generating():
            what = "op %d round trip via %s (level %d) of a tensor in state %s" % (rec["id"], ar["route"], ar["level"], state_tags(a))
            if core.tensor_canon(a) != before:
                raise core.Violation("C15", "O1-operand-modified", what + ": the source changed")
            observationally_equal(a, b, ar["fseed"], what)
            w = core.current_world()
            tags = state_tags(a)
            w.stats["roundtrips"] += 1
            if tags:
                w.stats["roundtrips_nondefault_state"] += 1
            for tg in tags:
                w.probes["roundtrip_%s_%s" % (ar["route"], tg)] += 1
            if ar["route"] in ("method", "function", "split", "gen1") and ar["level"] < 2 and a.size:
                # levels < 2 share storage by documentation; level 2 (and every storage route) must be independent
                pass
            if (ar["level"] == 2 or ar["route"] in ("numpy", "numpy_split", "hdf5", "legacy")) and a.size and ar["route"] != "gen1":
                if np.shares_memory(a._data, b._data):
                    raise core.Violation(PROP, "independence", what + ": restored object shares memory with the source")
        return [b]

    def shadow(self, task, rec, sins, outs, ins=None):
        a = sins[0]
        return [e1.Shadow(a.arr, a.axes, a.tree, a.n, a.sym, a.isdiag)]


@e1.register
class OpSerialMeta(e1.Op):
    """to_dict(meta=...): vector <-> tensor map against a supplied structure."""
    name = "serial_meta"

    def nout(self, rec):
        return 0

    def gen(self, g):
        a = g.pick_tensor(lambda s, v, sh: sh is not None and v.yastn_dtype != "bool")
        if a is None:
            return None
        b = e1.partner_same(g, a)
        if b is None:
            return None
        return {"op": "serial_meta", "in": [a, b], "args": {"level": g.rng.choice([1, 2]), "alpha": round(g.rng.uniform(-2, 2), 3), "beta": round(g.rng.uniform(-2, 2), 3),
                                                           "materialise_meta": g.rng.random() < 0.5}}

    def run(self, task, rec, ins):
        a, b = ins
        ar = rec["args"]
        V = core.Violation
        # structure: the sum (all blocks of either operand); optionally from a materialised copy while the
        # operands keep their pending permutation
        full = a + b
        src = full.consume_transpose() if ar["materialise_meta"] else full
        _, meta = yastn.split_data_and_meta(src.to_dict(level=ar["level"]))
        if _generating():
            a.to_dict(level=ar["level"], meta=meta)
            return []
        what = "op %d to_dict(meta) level %d, operands in state %s / %s" % (rec["id"], ar["level"], state_tags(a), state_tags(b))

        def vec(x):
            d = x.to_dict(level=ar["level"], meta=meta)
            data, m2 = yastn.split_data_and_meta(d)
            return np.asarray(data[0])

        va, vb = vec(a), vec(b)
        size = src.size
        if va.shape != (size,) or vb.shape != (size,):
            raise V(PROP, "meta-size", "%s: vector length %s, structure size %d" % (what, va.shape, size))
        if abs(float(np.linalg.norm(va)) - float(a.norm())) > 1e-12 * max(1.0, float(a.norm())):
            raise V(PROP, "meta-norm", "%s: |vector| = %.15g, |tensor| = %.15g" % (what, float(np.linalg.norm(va)), float(a.norm())))
        al, be = ar["alpha"], ar["beta"]
        vc = vec(al * a + be * b)
        if not np.allclose(vc, al * va + be * vb, rtol=1e-12, atol=1e-12 * max(1.0, float(np.max(np.abs(vc))) if vc.size else 1.0)):
            raise V(PROP, "meta-linear", "%s: vector of a linear combination is not the combination of vectors" % what)
        ra = yastn.Tensor.from_dict(yastn.combine_data_and_meta((va,), meta))
        try:
            d = float((ra - a).norm())
        except yastn.YastnError as e:
            raise V(PROP, "meta-restore", "%s: tensor restored from (vector, meta) is not comparable with the source: %s" % (what, str(e)[:100]))
        if d > 1e-13 * max(1.0, float(a.norm())):
            raise V(PROP, "meta-restore", "%s: tensor restored from (vector, meta) differs from the source by %.3e" % (what, d))
        if ra.get_legs() != src.get_legs() and ra.get_legs() != full.get_legs():
            raise V(PROP, "meta-zero-fill", "%s: restored tensor does not have the legs of the supplied structure (zero blocks not filled)" % what)
        core.current_world().stats["meta_roundtrips"] += 1
        return []


@e1.register
class OpSerialReject(e1.Op):
    """Incompatible config or meta must be rejected with YastnError."""
    name = "serial_reject"

    def nout(self, rec):
        return 0

    def gen(self, g):
        a = g.pick_tensor(lambda s, v, sh: sh is not None and v.size > 0 and v.yastn_dtype != "bool")
        if a is None:
            return None
        kind = g.rng.choice(["other_sym", "other_fermionic", "meta_other_charge", "meta_other_signature"])
        return {"op": "serial_reject", "in": [a], "args": {"kind": kind, "level": g.rng.choice([0, 1, 2])}}

    def run(self, task, rec, ins):
        a, ar = ins[0], rec["args"]
        k = ar["kind"]
        V = core.Violation
        sym = task.cfgspec["sym"]
        if _generating():
            return []
        w = core.current_world()
        try:
            if k == "other_sym":
                other = yastn.make_config(sym="Z3" if sym != "Z3" else "U1")
                yastn.Tensor.from_dict(a.to_dict(level=ar["level"]), config=other)
            elif k == "other_fermionic":
                f = task.cfg.fermionic
                other = task.cfg._replace(fermionic=(not f) if isinstance(f, bool) else tuple(not x for x in f))
                if task.sym.nsym == 0 and False:
                    return []
                yastn.Tensor.from_dict(a.to_dict(level=ar["level"]), config=other)
            elif k == "meta_other_charge":
                if task.sym.nsym == 0 or a.isdiag or a.ndim == 0:
                    return []
                other = a.add_leg(axis=0, s=1, t=tuple(1 for _ in range(task.sym.nsym))).remove_leg(axis=0)   # same legs, other charge
                if tuple(other.n) == tuple(a.n):
                    return []
                _, meta = yastn.split_data_and_meta(other.to_dict(level=2))
                a.to_dict(level=2, meta=meta)
            else:
                if a.ndim == 0:
                    return []
                _, meta = yastn.split_data_and_meta(a.flip_signature().to_dict(level=2))
                a.to_dict(level=2, meta=meta)
        except yastn.YastnError:
            w.stats["incompatible_rejected"] += 1
            return []
        except Exception as e:  # noqa: BLE001
            raise V(PROP, "reject-other-exception", "op %d incompatible %s raised %s instead of YastnError: %s" % (rec["id"], k, type(e).__name__, str(e)[:100]))
        raise V(PROP, "reject-accepted", "op %d: incompatible %s was accepted instead of being rejected with YastnError" % (rec["id"], k))


# ---- containers: MPS/MPO (with/without central block, non-unit factor), PEPS, environments ------------------------------

C_ROUTES = ("method", "function", "split", "numpy", "hdf5", "legacy")


def container_roundtrip(x, route, level, cfg):
    if route == "method":
        return type(x).from_dict(x.to_dict(level=level))
    if route == "function":
        return yastn.from_dict(x.to_dict(level=level))
    if route == "split":
        data, meta = yastn.split_data_and_meta(x.to_dict(level=level))
        return yastn.from_dict(yastn.combine_data_and_meta(data, meta))
    if route == "numpy":
        buf = io.BytesIO()
        np.save(buf, x.to_dict(level=max(level, 1)), allow_pickle=True)
        buf.seek(0)
        return yastn.from_dict(np.load(buf, allow_pickle=True).item())
    if route == "hdf5":       # MPS/MPO only
        import h5py
        _H5[0] += 1
        with h5py.File("mem-%d.h5" % _H5[0], "w", driver="core", backing_store=False) as f:
            x.save_to_hdf5(f, "state/psi")
            return mps.load_from_hdf5(cfg, f, "state/psi")
    if route == "legacy":
        with warnings.catch_warnings():
            warnings.simplefilter("ignore")
            d = x.save_to_dict()
            if isinstance(x, mps.MpsMpoOBC):
                return mps.load_from_dict(cfg, d)
            return fpeps.load_from_dict(cfg, d)
    raise ValueError(route)


def container_equal(task, a, b, route, what, fseed):
    V = core.Violation
    if type(a) is not type(b):
        raise V(PROP, "type", "%s: restored %s from %s" % (what, type(b).__name__, type(a).__name__))
    materialising = route in ("hdf5", "legacy")      # documented to absorb the central block of an MPS
    ma, mb = meta_of(a), meta_of(b)
    if isinstance(a, mps.MpsMpoOBC):
        da, db = e2.dense_of(task, a), e2.dense_of(task, b)
        sc = max(1.0, float(np.max(np.abs(da))) if da.size else 1.0)
        if da.shape != db.shape or not np.allclose(da, db, rtol=0, atol=(1e-13 if materialising else 0.0) * sc):
            raise V(PROP, "values", "%s: the restored object represents a different state/operator (max deviation %.3e)" % (what, float(np.max(np.abs(da - db))) if da.shape == db.shape else -1))
        if not materialising:
            if ma != mb:
                raise V(PROP, "structure", "%s: N / nr_phys / central-block position / factor / keys differ: %s vs %s" % (what, ma, mb))
        else:
            if (a.N, a.nr_phys) != (b.N, b.nr_phys) or b.pC is not None:
                raise V(PROP, "structure", "%s: N / nr_phys differ or a central block survived a materialising route" % what)
            if abs(complex(a.factor) - complex(b.factor)) > 1e-14 * max(1.0, abs(complex(a.factor))):
                raise V(PROP, "structure", "%s: factor %r restored as %r" % (what, a.factor, b.factor))
        # follow-up behaviour: overlap with the source and virtual legs
        if a.nr_phys == 1 and a.pC is None and b.pC is None and not e2.has_meta_legs(a):     # (vdot on meta-fused virtual legs: known finding K-C06-meta-product)
            try:
                oa = complex(mps.vdot(a, a))
            except (yastn.YastnError, ValueError):
                # the SOURCE itself cannot be contracted by vdot (objects derived from a meta-fused product: known finding K-C06-meta-product):
                # no follow-up to compare
                core.current_world().probes["follow_up_vdot_unusable_on_source"] += 1
                oa = None
            ob = complex(mps.vdot(a, b)) if oa is not None else None
            if oa is not None and abs(oa - ob) > 1e-12 * max(1.0, abs(oa)):
                raise V(PROP, "follow-up-contraction", "%s: <a|a> = %r but <a|restored> = %r" % (what, oa, ob))
    elif ma != mb:
        raise V(PROP, "structure", "%s: geometry / type differ: %s vs %s" % (what, ma, mb))
    pa, pb = parts(a), parts(b)
    if route == "legacy" and isinstance(a, fpeps.EnvBP):
        # the deprecated dictionary of EnvBP stores the messages t/l/b/r only; their square-root factors tR/lR/bR/rR are re-derived on loading
        # (eigh + qr, a gauge choice): they are compared through the follow-up measurement below, not tensor by tensor
        pa = {k: t for k, t in pa.items() if not k.endswith("R")}
        pb = {k: t for k, t in pb.items() if not k.endswith("R")}
    if not (materialising and isinstance(a, mps.MpsMpoOBC) and a.pC is not None):
        if set(pa) != set(pb):
            raise V(PROP, "structure", "%s: the restored object holds tensors %s, the source %s" % (what, sorted(pb)[:8], sorted(pa)[:8]))
        for k in sorted(pa):
            observationally_equal(pa[k], pb[k], fseed, what + " tensor %s" % k)
    if isinstance(a, fpeps.Peps) and task.N <= 6:
        ta, tb = a.to_tensor(), b.to_tensor()
        if ta.get_legs() != tb.get_legs() or not np.array_equal(ta.to_numpy(), tb.to_numpy()):
            raise V(PROP, "values", "%s: to_tensor() of the restored PEPS differs" % what)
    if isinstance(a, (fpeps.EnvCTM, fpeps.EnvBP, fpeps.EnvBoundaryMPS)):
        O = task.space.table[sorted(task.space.neutral())[-1]]
        try:
            va = a.measure_1site(O)
        except Exception:  # noqa: BLE001  (the source environment is stale: its state was evolved in place after it was built)
            core.current_world().probes["stale_environment_follow_up_skipped"] += 1
            return
        vb = b.measure_1site(O)
        if set(va) != set(vb) or any(abs(complex(va[k]) - complex(vb[k])) > 1e-12 * max(1.0, abs(complex(va[k]))) for k in va):
            raise V(PROP, "follow-up-measurement", "%s: measure_1site on the restored environment differs" % what)


def container_tags(x):
    tags = [type(x).__name__]
    if isinstance(x, mps.MpsMpoOBC):
        if x.pC is not None:
            tags.append("central_block")
        if complex(x.factor) != 1:
            tags.append("factor")
    for t in parts(x).values():
        for tg in state_tags(t):
            if tg not in tags:
                tags.append(tg)
    return tags


@e1.register
class OpContainerSerial(e1.Op):
    name = "c_serial"

    def gen(self, g):
        c = [s for s, v in g.task.slots.items() if meta_of(v) is not None and not isinstance(v, fpeps.DoublePepsTensor)]
        if not c:
            return None
        special = [s for s in c if getattr(g.task.slots[s], "pC", None) is not None or complex(getattr(g.task.slots[s], "factor", 1)) != 1]
        a = g.rng.choice(special) if special and g.rng.random() < 0.7 else g.rng.choice(c)
        v = g.task.slots[a]
        routes = [r for r in C_ROUTES if (r != "hdf5" or isinstance(v, mps.MpsMpoOBC))]
        if isinstance(v, (fpeps.EnvBP, fpeps.EnvCTM, fpeps.EnvBoundaryMPS)):
            # the deprecated save_to_dict/load_from_dict pair is not among the routes the property names; for environments it is lossy by design
            # (EnvBP re-derives the message factors with eigh + sqrt + qr and fails on rank-deficient messages: observation, DESIGN 7.4)
            routes = [r for r in routes if r != "legacy"]
        if getattr(v, "pC", None) is not None:
            routes += ["hdf5", "hdf5", "legacy", "split"]       # routes that treat the central block specially
        return {"op": "c_serial", "in": [a], "args": {"route": g.rng.choice(routes), "level": g.rng.choice([0, 1, 2]), "fseed": g.rng.randrange(1 << 30)}}

    def run(self, task, rec, ins):
        a, ar = ins[0], rec["args"]
        from props.c15 import snap
        before = snap(a)
        b = container_roundtrip(a, ar["route"], ar["level"], task.cfg)
        if not _generating():
            tags = container_tags(a)
            what = "op %d round trip via %s (level %d) of %s" % (rec["id"], ar["route"], ar["level"], tags)
            if snap(a) != before:
                raise core.Violation(PROP, "source-modified", what + ": the source changed")
            container_equal(task, a, b, ar["route"], what, ar["fseed"])
            w = core.current_world()
            w.stats["roundtrips"] += 1
            w.stats["container_roundtrips"] += 1
            w.stats["roundtrips_nondefault_state"] += 1 if len(tags) > 1 else 0
            for tg in tags:
                w.probes["roundtrip_%s_%s" % (ar["route"], tg)] += 1
            if ar["level"] == 2 or ar["route"] in ("numpy", "hdf5", "legacy"):
                pa, pb = parts(a), parts(b)
                for ka, ta in pa.items():
                    for kb, tb in pb.items():
                        if ta._data.size and tb._data.size and np.shares_memory(ta._data, tb._data):
                            raise core.Violation(PROP, "independence", what + ": restored object shares memory with the source (%s / %s)" % (ka, kb))
        return [b]

    def shadow(self, task, rec, sins, outs, ins=None):
        return [sins[0].copy() if hasattr(sins[0], "copy") else sins[0]]


@e1.register
class CSerialDpt(e1.Op):
    """Two-layer PEPS tensor (DoublePepsTensor) of a pooled PEPS site, with operator, fermionic charge swaps and a pending cyclic transposition,
    sent through to_dict -> from_dict (seeded C17-c): the restored object must contract to the same tensor."""
    name = "c_serial_dpt"
    creates = True

    def nout(self, rec):
        return 0

    def gen(self, g):
        t = g.task
        peps = [s for s, v in t.slots.items() if e3.is_peps(v) and type(v).__name__ == "Peps"]
        if not peps:
            return None
        ch = sorted(t.space.charged())
        swaps = []
        if ch and g.rng.random() < 0.8:
            for _ in range(g.rng.randint(1, 3)):
                swaps.append([g.rng.choice("bk") + str(g.rng.randrange(5)), list(t.space.table[g.rng.choice(ch)].n)])
        return {"op": "c_serial_dpt", "in": [g.rng.choice(peps)],
                "args": {"site": list(g.rng.choice(t.sites)), "with_op": g.rng.choice([None] + sorted(t.space.table)), "swaps": swaps, "trans": g.rng.randrange(4),
                         "route": g.rng.choice(["method", "function", "split", "numpy"]), "level": g.rng.choice([0, 1, 2])}}

    def run(self, task, rec, ins):
        ar = rec["args"]
        A = ins[0][tuple(ar["site"])]
        if A.ndim != 5:           # sites stored with fused legs are opened by the library on access; anything else is outside this op
            return []
        a = fpeps.DoublePepsTensor(bra=A, ket=A)
        if ar["with_op"]:
            a.set_operator_(task.space.table[ar["with_op"]])
        for ax, c in ar["swaps"]:
            a.add_charge_swaps_(tuple(c), ax)
        a = a.transpose(axes=e3.ALLOWED_TRANS[ar["trans"]])
        ref = a.fuse_layers()
        b = container_roundtrip(a, ar["route"], ar["level"], task.cfg)
        if _generating():
            return []
        V = core.Violation
        what = "op %d round trip via %s (level %d) of a DoublePepsTensor (operator %s, swaps %s, transposition %s)" % (
            rec["id"], ar["route"], ar["level"], ar["with_op"], ar["swaps"], e3.ALLOWED_TRANS[ar["trans"]])
        if type(b) is not type(a):
            raise V(PROP, "type", "%s: restored %s" % (what, type(b).__name__))
        got = b.fuse_layers()
        if got.get_legs() != ref.get_legs() or got.n != ref.n:
            raise V(PROP, "structure", "%s: the restored object contracts to a tensor with different legs or charge" % what)
        x, y = ref.to_numpy(), got.to_numpy()
        if x.shape != y.shape or not np.array_equal(x, y):
            raise V(PROP, "values", "%s: the restored object contracts to a different tensor (max deviation %.3e)" % (what, float(np.max(np.abs(x - y))) if x.shape == y.shape else -1))
        if (b.op is None) != (a.op is None) or tuple(b.trans) != tuple(a.trans) or b.get_legs() != a.get_legs():
            raise V(PROP, "structure", "%s: operator / pending transposition / legs differ" % what)
        if ar["level"] == 2 or ar["route"] == "numpy":
            for nm in ("bra", "ket"):
                ta, tb = getattr(a, nm), getattr(b, nm)
                if ta._data.size and np.shares_memory(ta._data, tb._data):
                    raise V(PROP, "independence", "%s: restored %s shares memory with the source" % (what, nm))
        w = core.current_world()
        w.stats["roundtrips"] += 1
        w.stats["container_roundtrips"] += 1
        w.probes["roundtrip_dpt_%s" % ar["route"]] += 1
        if ar["swaps"]:
            w.probes["roundtrip_dpt_with_swaps"] += 1
        return []

    def shadow(self, task, rec, sins, outs, ins=None):
        return []


W_E2 = {"m_random_mps": 3, "m_random_mpo": 2, "m_product_mps": 0.7, "m_generate_mpo": 1, "m_add": 1.5, "m_scal": 2, "m_matmul": 1, "m_unary": 1.5, "m_inplace": 5, "c_serial": 9}
W_E3 = {"p_init": 1.2, "p_prepare": 0.8, "p_gate": 4, "p_copy": 0.5, "p_add": 1, "p_env": 2.5, "c_serial": 8, "c_serial_dpt": 3}


def build_container(seed, tier, kind):
    rng = core.stream(seed, "programs")
    swarm = core.stream(seed, "swarm")
    if kind == "E2":
        case = e2prop.build(seed, tier, PROP, W_E2, nops=(8, 14), Nmax=5, lapack=True)
        return case
    fam = rng.choice(["SpinlessFermions", "SpinlessFermions", "Spin12", "SpinfulFermions"])
    dims = list(rng.choice([(1, 2), (2, 1), (2, 2), (2, 2), (1, 3), (3, 1)] + ([(2, 3), (3, 2)] if fam != "SpinfulFermions" else [])))
    arm = "disturbed" if swarm.random() < 0.5 else "baseline"
    cfg = {"family": fam, "sym": rng.choice(e3.FAMILIES3[fam]), "dims": dims, "tree": min(dims) == 1,
           "tensordot_policy": swarm.choice(e1run.POLICIES) if arm == "disturbed" else "fuse_to_matrix", "default_fusion": "hard"}
    if dims[0] >= 2 and rng.random() < 0.2:
        cfg["boundary"] = "cylinder"
    spec = {"id": 0, "engine": "E3", "config": cfg, "universe": [], "tags": {}}
    wts = dict(W_E3)
    if cfg.get("boundary") == "cylinder":
        wts["p_env"] = 0
    prog, digs, t = e1run.generate_cold(seed, spec, rng, swarm.randint(7, 12), wts, seed_ops=("p_init",), cache_impl="real")
    ts = dict(spec)
    ts["program"] = prog
    world = {"cache_impl": "real", "maxsize": "default", "lapack": True, "fc": {}}
    if arm == "disturbed":
        world = {"cache_impl": swarm.choice(["real", "instrumented"]), "maxsize": swarm.choice(["default", 0, 1, 2, 8]), "lapack": True,
                 "fc": {"p_lookup": swarm.choice([0.0, 0.02, 0.05]), "lookup_kinds": ["evict", "clear_table", "clear_all", "resize"], "p_lapack": swarm.choice([0.0, 0.2])}}
    return {"format": 1, "property": PROP, "engine": "E3", "arm": arm, "seed": seed, "world": world, "tasks": [ts],
            "schedule": [["op", 0, r["id"]] for r in prog], "inner": {}, "mode": "draw", "rejected": getattr(t, "rejected", [])}


def after_op(w, task, rec, outs):
    pass


def on_exception(w, task, rec, exc):
    if rec["op"] in ("serial", "serial_meta", "serial_reject", "c_serial", "c_serial_dpt"):
        raise core.Violation(PROP, "exception-where-result-promised", "op %d %s %s raised %s: %s" % (rec["id"], rec["op"], rec["args"], type(exc).__name__, str(exc)[:150]), op=rec["op"])


def run_seed(seed, tier):
    kind = core.stream(seed, "object-world").choice(["E1", "E1", "E1", "E2", "E2", "E3"])
    if kind == "E1":
        case = e1prop.build(seed, tier, PROP, WEIGHTS, nops=(7, 14), p_disturbed=0.5)
    else:
        case = build_container(seed, tier, kind)
    v, w, info = e1prop.simulate(case, True, after_op, on_exception, shadow=True)
    info["checked_outputs"] = (w.stats.get("roundtrips", 0) + w.stats.get("meta_roundtrips", 0)) * 4
    r = e1prop.result(case, v, w, info, seed)
    r["nontrivial"] = bool(w.stats.get("roundtrips_nondefault_state", 0) > 0 and (case["arm"] == "baseline" or r["disturbed_effective"]))
    r["world_kind"] = kind
    return r


def replay(case):
    v, _, _ = e1prop.simulate(_copy.deepcopy(case), False, after_op, on_exception, shadow=True)
    return v


def extra_evidence(results):
    out = e1prop.extra_evidence(results)
    kinds = {}
    for r in results:
        kinds[r.get("world_kind", "E1")] = kinds.get(r.get("world_kind", "E1"), 0) + 1
    out["runs_by_object_world"] = {"tensors (E1)": kinds.get("E1", 0), "MPS/MPO (E2)": kinds.get("E2", 0), "PEPS and environments (E3)": kinds.get("E3", 0)}
    return out
