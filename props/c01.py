"""C01 — tensor algebra agrees with dense linear algebra (thin).

Programs over the operations the statement lists run on operands whose *state* was produced
by earlier steps (lazily permuted or materialised, meta/hard fused, sectors present in one
operand only, empty, charged, complex, aliased).  Every result is compared op by op with a
dense NumPy shadow (legs in documented order, charge, values) and the four views (block access,
to_numpy, to_nonsymmetric, get_legs) are cross-checked against an independent re-assembly.
baseline arm = seeded sampling against the reference model under the suite's knobs;
disturbed arm = other tensordot kernels / fusion modes, cache faults at every lookup, buggify.
"""
import copy as _copy

from sim import core, e1, e1prop
from sim.core import yastn

PROP = "C01"
ENGINE = "E1"
LEVEL = "exploration"
TECHNIQUE = "seeded operation histories vs a dense NumPy reference model (baseline arm); same histories under knob schedules, cache faults and buggify events (disturbed arm, deterministic simulation)"
RULE = ("one evaluation = one program (8-18 ops) with every output compared with its dense shadow. Non-trivial = at least 4 outputs compared and, "
        "for disturbed runs, at least one disturbance was effective (knobs differ from the suite's, a buggify event changed the lazy state of a "
        "consumed operand, an evicted/cleared entry was refilled); distinct = SHA-256 of (program, schedule, fired faults). Baseline runs are "
        "plain seeded sampling against the model and are counted separately (baseline_runs / disturbed_runs).")
REAL_STUB = "real: all yastn code and NumPy. stub: LRU container in instrumented-cache runs."
ASSUMPTIONS = ["the shadow models elementary legs only; fused results are observed after complete unfusing (unfuse_legs is itself under test in C03/C14)",
               "tolerance 1e-10 * max(1, |values|) for arithmetic"]
CHUNK = 8
WEIGHTS = dict(e1.DEFAULT_WEIGHTS)
WEIGHTS.update({"svd": 0.6, "factor_recombine": 0.6, "eigh_gram": 0.4, "observe": 0.2, "swap_gate": 0.3})


def budget(tier):
    return 12000 if tier == "quick" else 60000


def after_op(w, task, rec, outs):
    for q, s in enumerate(rec["out"]):
        what = "op %d %s %s output %d" % (rec["id"], rec["op"], {k: v for k, v in rec["args"].items() if k in ("kind", "axes", "conj", "axis")}, q)
        try:
            e1.compare(task, task.slots[s], task.shadows.get(s), PROP, what)
            e1.cross_check_views(task, task.slots[s], PROP, what)
        except core.Violation as v:
            v.where.update({"op": rec["op"], "kind": str(rec["args"].get("kind"))})
            raise


def on_exception(w, task, rec, exc):
    op = e1.OPS[rec["op"]]
    if op.listed_c01 and isinstance(exc, yastn.YastnError):
        raise core.Violation(PROP, "exception-where-result-promised", "op %d %s %s raised %s where the dense model computes a result"
                             % (rec["id"], rec["op"], rec["args"], str(exc)[:150]), op=rec["op"], kind=str(rec["args"].get("kind")))
    if op.listed_c01 and not isinstance(exc, yastn.YastnError):
        raise core.Violation(PROP, "exception-where-result-promised", "op %d %s %s raised %s: %s" % (rec["id"], rec["op"], rec["args"], type(exc).__name__, str(exc)[:150]),
                             op=rec["op"], kind=str(rec["args"].get("kind")))


def run_seed(seed, tier):
    case = e1prop.build(seed, tier, PROP, WEIGHTS)
    v, w, info = e1prop.simulate(case, True, after_op, on_exception)
    return e1prop.result(case, v, w, info, seed)


def replay(case):
    v, _, _ = e1prop.simulate(_copy.deepcopy(case), False, after_op, on_exception)
    return v


extra_evidence = e1prop.extra_evidence
