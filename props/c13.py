"""C13 — truncation keeps exactly the largest weights and reports the true error (thin).

 trunc_mask : truncation_mask on synthetic spectra spread over 1-5 sectors (degenerate values,
              exact zeros, single-element sectors, all-equal spectra) for all combinations of
              D_total, D_block (int and per-sector dict, incl. 0), tol, tol_block.
 trunc_svd  : svd_with_truncation / eigh_with_truncation on tensors from E1 histories
              (C04's inputs): |a - U S V| equals the norm of the discarded values, S unchanged
              on kept entries, limits respected.
Model oracle (ties are the only freedom): stage 1 per sector keeps the n1 = min(D_block, #above
tol_block) largest, stage 2 keeps the n2 = min(D_total, #above tol) largest of the survivors;
the multiset of kept values must equal the model's; inside a sector kept values are a prefix of
the descending order.  The selection logic is a pure function of (spectrum, limits): that part is
seeded sampling against the model (baseline arm).  Simulation proper (disturbed arm): LAPACK
primary-driver failures under the truncated decompositions (fallback must deliver the same
sorted spectrum), cache faults (clear/resize/evict at every lookup) on the mask metadata table.
"""
import copy as _copy

import numpy as np

from sim import core, e1, e1prop, e1run
from sim.core import yastn

PROP = "C13"
ENGINE = "E1"
LEVEL = "exploration"
LEVEL_TEXT = ("THIN as a simulation target: the selection logic is a pure function of (spectrum, limits) and is decided by seeded sampling against a two-stage "
              "selection model (baseline arm). Simulation proper is the disturbed arm: truncated decompositions with the LAPACK primary driver failing (fallback "
              "drivers deliver the spectrum) and cache faults at every lookup of the mask metadata tables. Sampling, not proof.")
LEVEL_NOTE = "Trusted: NumPy sorting in the model; values at round-off level (<= 1e-11 of the largest) and values within 1e-9 of a threshold are free (ties are the only freedom the property grants; exact-threshold semantics are not fixed by it)."
TECHNIQUE = "seeded sampling of spectra x limit combinations vs a two-stage selection model (baseline arm); truncated decompositions under injected LAPACK primary-driver failures and cache faults on the mask tables (disturbed arm, deterministic simulation)"
RULE = ("one evaluation = one history with 2-6 truncation ops. Non-trivial = at least one truncation that actually discarded values and, for disturbed runs, at least one "
        "LAPACK fallback executed or cache entry refilled; distinct = SHA-256 of (program, schedule, fired faults). Baseline runs are counted separately.")
REAL_STUB = "real: yastn linalg/contractions/merging, SciPy/NumPy LAPACK incl. fallback drivers. stub: injected primary-driver failure; LRU container in instrumented runs."
ASSUMPTIONS = ["limit combinations whose thresholds fall within 1e-9 (relative) of a spectrum value are asserted only weakly (limits respected, prefix property): ties and exact-threshold values are free",
               "per-sector D_block dictionaries drop sectors that are not listed (documented behaviour of truncation_mask)"]
CHUNK = 6
WEIGHTS = {"rand": 3, "transpose": 2.5, "fuse": 2, "unfuse": 0.7, "conj": 0.7, "add": 1, "tensordot": 2, "trunc_mask": 7, "trunc_svd": 7, "pair_unary": 0.3}


def budget(tier):
    return 6000 if tier == "quick" else 60000


def _indefinite(a, b, l1, k):
    """Hermitian, indefinite: X + X^dagger with X = a . b^dagger over the legs l1."""
    X = yastn.tensordot(a, b, axes=(tuple(l1), tuple(l1)), conj=(0, 1))
    return X + X.conj().transpose(axes=tuple(range(k, 2 * k)) + tuple(range(k)))


def _generating():
    return getattr(core.current_world(), "generating", False)


def model_select(spec, tol, tol_block, D_block, D_total):
    """spec: {t: sorted-desc ndarray}.  Returns (kept multiset sorted desc, strict: bool)."""
    strict = True
    surv = {}
    for t, v in spec.items():
        if len(v) == 0:
            continue
        mx = float(np.max(np.abs(v)))
        tb = tol_block
        thr = tb * mx
        if np.any(np.abs(v - thr) <= 1e-9 * max(mx, 1e-300)) and thr > 0:
            strict = False
        n_tol = int(np.sum(v > thr))
        db = D_block.get(t, 0) if isinstance(D_block, dict) else D_block
        n1 = int(min(db, n_tol))
        s = np.sort(v)[::-1]
        if 0 < n1 < len(s) and s[n1 - 1] == s[n1]:
            pass  # tie at the cut: multiset still well defined
        surv[t] = s[:n1]
    pool = np.sort(np.concatenate([x for x in surv.values()] or [np.zeros(0)]))[::-1]
    if len(pool) == 0:
        return pool, strict, surv
    mx = float(np.max(np.abs(pool)))
    thr = tol * mx
    if thr > 0 and np.any(np.abs(pool - thr) <= 1e-9 * max(mx, 1e-300)):
        strict = False
    n_tol = int(np.sum(pool > thr))
    n2 = int(min(D_total, n_tol))
    return pool[:n2], strict, surv


def check_mask(spec, mask, tol, tol_block, D_block, D_total, what, exact=True):
    """spec: {t: ndarray in storage order}, mask: {t: bool ndarray}."""
    V = core.Violation
    kept_all, disc_all = [], []
    for t, v in spec.items():
        m = mask.get(t)
        if m is None:
            m = np.zeros(len(v), dtype=bool)
        if len(m) != len(v):
            raise V(PROP, "mask-shape", "%s: sector %s: mask of length %d for %d values" % (what, t, len(m), len(v)))
        k, d = v[m], v[~m]
        db = D_block.get(t, 0) if isinstance(D_block, dict) else D_block
        if len(k) > db:
            raise V(PROP, "limit-D_block", "%s: sector %s keeps %d values, D_block allows %s" % (what, t, len(k), db))
        if len(k) and len(d) and np.max(d) > np.min(k):
            raise V(PROP, "maximal-weight", "%s: sector %s discards %.6g but keeps %.6g" % (what, t, np.max(d), np.min(k)))
        mx = float(np.max(np.abs(v))) if len(v) else 0.0
        if len(k) and np.min(k) < tol_block * mx * (1 - 1e-9) - 1e-300:
            raise V(PROP, "limit-tol_block", "%s: sector %s keeps %.6g below tol_block*max = %.6g" % (what, t, np.min(k), tol_block * mx))
        kept_all.append(k)
        disc_all.append(d)
    kept = np.sort(np.concatenate(kept_all or [np.zeros(0)]))[::-1]
    if len(kept) > D_total:
        raise V(PROP, "limit-D_total", "%s: keeps %d values, D_total allows %s" % (what, len(kept), D_total))
    model, strict, surv = model_select(spec, tol, tol_block, D_block, D_total)
    if len(kept) and len(model) and kept[-1] < tol * float(np.max(np.abs(np.concatenate(list(surv.values()))))) * (1 - 1e-9):
        raise V(PROP, "limit-tol", "%s: keeps %.6g below tol*max" % (what, kept[-1]))
    if strict:
        same = len(kept) == len(model) and (np.array_equal(kept, model) if exact else
                                            np.allclose(kept, model, rtol=1e-11, atol=1e-11 * (float(np.max(np.abs(model))) if len(model) else 1.0)))
        if not same:
            raise V(PROP, "maximal-weight", "%s: kept multiset %s differs from the largest-weights selection %s (tol=%s tol_block=%s D_block=%s D_total=%s)"
                    % (what, kept[:12], model[:12], tol, tol_block, D_block, D_total))
    return kept, np.concatenate(disc_all or [np.zeros(0)])


def sectors_of(S):
    out = {}
    for t, blk in __import__("props.c04", fromlist=["_diag_blocks"])._diag_blocks(S):
        out[t] = np.asarray(blk)
    return out


def draw_limits(rng, spec):
    sizes = [len(v) for v in spec.values()]
    tot = sum(sizes)
    D_total = rng.choice([float("inf"), float("inf"), tot, max(0, tot - 1), rng.randint(0, max(1, tot)), 1])
    if rng.random() < 0.25:
        D_block = [[list(t), rng.randint(0, len(spec[t]) + 1)] for t in spec if rng.random() < 0.8]
    else:
        D_block = rng.choice([float("inf"), float("inf"), max(sizes or [1]), rng.randint(0, max(sizes or [1])), 1])
    allv = np.concatenate([v for v in spec.values()] or [np.zeros(1)])
    tol = rng.choice([0, 0, 1e-14, rng.choice([0.05, 0.2, 0.5, 0.9])])
    tol_block = rng.choice([0, 0, 0, rng.choice([0.05, 0.3, 0.7])])
    if rng.random() < 0.1 and len(allv) > 1 and np.max(allv) > 0:
        tol = max(0.0, float(rng.choice(list(allv)) / np.max(allv)))       # a threshold that exactly hits an entry (weak oracle)
    return {"tol": tol, "tol_block": tol_block, "D_block": D_block if not isinstance(D_block, float) else "inf",
            "D_total": D_total if D_total != float("inf") else "inf"}


def limits_kw(lim):
    D_block = lim["D_block"]
    if D_block == "inf":
        D_block = float("inf")
    elif isinstance(D_block, list):
        D_block = {tuple(k): v for k, v in D_block}
    D_total = float("inf") if lim["D_total"] == "inf" else lim["D_total"]
    return {"tol": lim["tol"], "tol_block": lim["tol_block"], "D_block": D_block, "D_total": D_total}


@e1.register
class OpTruncMask(e1.Op):
    name = "trunc_mask"
    creates = True

    def nout(self, rec):
        return 0

    def gen(self, g):
        rng = g.rng
        sp = g.leg_spec(full=rng.random() < 0.5)
        U = e1._uleg(g.task, sp)
        idx = sp[2] if sp[2] is not None else list(range(len(U.ts)))
        spec = {}
        kind = rng.choice(["random", "random", "degenerate", "zeros", "equal", "geometric"])
        vals = {}
        for i in idx:
            D = U.Ds[i]
            if kind == "random":
                v = [round(rng.random(), 6) for _ in range(D)]
            elif kind == "degenerate":
                v = [rng.choice([0.25, 0.5, 0.5, 1.0]) for _ in range(D)]
            elif kind == "zeros":
                v = [rng.choice([0.0, 0.0, round(rng.random(), 6)]) for _ in range(D)]
            elif kind == "equal":
                v = [0.5] * D
            else:
                v = [0.5 ** rng.randint(0, 12) for _ in range(D)]
            vals[i] = v
            spec[U.ts[i]] = np.array(v)
        lim = draw_limits(rng, spec)
        if isinstance(lim["D_block"], list):
            lim["D_block"] = [[list(U.ts[i]), rng.randint(0, U.Ds[i] + 1)] for i in idx if rng.random() < 0.8]
        return {"op": "trunc_mask", "in": [], "args": {"leg": sp, "vals": {str(i): v for i, v in vals.items()}, "limits": lim}}

    def run(self, task, rec, ins):
        ar = rec["args"]
        U = e1._uleg(task, ar["leg"])
        leg = e1._yleg(task, ar["leg"])
        S = yastn.zeros(task.cfg, legs=[leg, leg.conj()], isdiag=True)
        spec = {}
        for i, v in ar["vals"].items():
            t = U.ts[int(i)]
            S.set_block(ts=t, Ds=(len(v),), val=np.array(v, dtype=np.float64))
            spec[t] = np.array(v, dtype=np.float64)
        kw = limits_kw(ar["limits"])
        before = core.tensor_canon(S)
        M = yastn.truncation_mask(S, **kw)
        if _generating():
            return []
        if core.tensor_canon(S) != before:
            raise core.Violation("C15", "O1-operand-modified", "truncation_mask modified its argument")
        mask = {t: np.asarray(b).astype(bool) for t, b in sectors_of(M).items()}
        kept, disc = check_mask(spec, mask, kw["tol"], kw["tol_block"], kw["D_block"], kw["D_total"], "op %d truncation_mask %s" % (rec["id"], ar["limits"]))
        w = core.current_world()
        if len(disc):
            w.stats["truncations_binding"] += 1
        w.stats["truncations"] += 1
        return []


@e1.register
class OpTruncSvd(e1.Op):
    name = "trunc_svd"

    def nout(self, rec):
        return 0

    def gen(self, g):
        rng = g.rng
        a = g.pick_tensor(lambda s, v, sh: sh is not None and not sh.isdiag and sh.ndim >= 2 and len(sh.axes) <= 6 and v.size > 0)
        if a is None:
            return None
        sa = g.sh(a)
        kind = rng.choice(["svd", "svd", "eigh"])
        if kind == "svd":
            axes = e1._bipartition(g, sa)
            x = g.val(a)
            S = yastn.svd(x, axes=(tuple(axes[0]), tuple(axes[1])), compute_uv=False)
            spec = sectors_of(S)
            args = {"kind": "svd", "axes": axes, "s": rng.choice([-1, 1]), "nU": rng.random() < 0.5}
        else:
            l0, l1 = e1._bipartition(g, sa)
            if 2 * e1._total_leaves(sa, l0) > 6:
                return None
            k = len(l0)
            args = {"kind": "eigh", "gram": [l0, l1], "axes": [list(range(k)), list(range(k, 2 * k))], "s": rng.choice([-1, 1])}
            x = g.val(a)
            ins_ = [a]
            G = yastn.tensordot(x, x, axes=(tuple(l1), tuple(l1)), conj=(0, 1))
            if rng.random() < 0.45 and not any(x.n):
                # an INDEFINITE Hermitian input (X + X^dagger from two different tensors): 'LM' orders by magnitude, 'LR' by signed value
                b = e1.partner_same(g, a, allow_self=False)
                if b is not None and b != a and not any(g.val(b).n):
                    ins_ = [a, b]
                    args["indef"] = True
                    args["which"] = rng.choice(["LM", "LM", "LR"])
                    G = _indefinite(x, g.val(b), l1, k)
            S, _ = yastn.eigh(G, axes=(tuple(range(k)), tuple(range(k, 2 * k))))
            spec = sectors_of(S)
            if args.get("which") == "LM":
                spec = {t: np.abs(v) for t, v in spec.items()}
        if not spec:
            return None
        args["limits"] = draw_limits(rng, spec)
        if isinstance(args["limits"]["D_block"], list):
            args["limits"]["D_block"] = [[list(t), rng.randint(0, len(v) + 1)] for t, v in spec.items() if rng.random() < 0.8]
        return {"op": "trunc_svd", "in": ins_ if kind != "svd" else [a], "args": args}

    def run(self, task, rec, ins):
        ar, a = rec["args"], ins[0]
        kw = limits_kw(ar["limits"])
        ax = (tuple(ar["axes"][0]), tuple(ar["axes"][1]))
        V = core.Violation
        what = "op %d %s_with_truncation %s" % (rec["id"], ar["kind"], ar["limits"])
        if ar["kind"] == "svd":
            U, S, Vh = yastn.svd_with_truncation(a, axes=ax, sU=ar["s"], nU=ar["nU"], **kw)
            if _generating():
                return []
            Sfull = yastn.svd(a, axes=ax, sU=ar["s"], nU=ar["nU"], compute_uv=False)
            ref = a.transpose(axes=ax[0] + ax[1])
            rec_t = U @ S @ Vh
        else:
            l0, l1 = ar["gram"]
            G = yastn.tensordot(a, a, axes=(tuple(l1), tuple(l1)), conj=(0, 1))
            wh = ar.get("which", "LR")
            if ar.get("indef"):
                G = _indefinite(a, ins[1], l1, len(l0))
            S, U = yastn.eigh_with_truncation(G, axes=ax, sU=ar["s"], which=wh, **kw)
            if _generating():
                return []
            Sfull, _ = yastn.eigh(G, axes=ax, sU=ar["s"], which=wh)
            ref = G
            k = len(l0)
            rec_t = yastn.tensordot(U @ S, U, axes=(k, k), conj=(0, 1))
        full = sectors_of(Sfull)
        kept = sectors_of(S)
        if ar.get("which") == "LM":      # magnitudes compete (and enter the error identity squared, like signed values do)
            full = {t: np.abs(v) for t, v in full.items()}
            kept = {t: np.abs(v) for t, v in kept.items()}
        # values at round-off level (they differ between LAPACK drivers, even in sign) are free: neither their
        # selection nor their order is asserted
        smax = max([float(np.max(np.abs(v))) for v in full.values() if len(v)] or [0.0])
        eps = 1e-11 * smax
        full = {t: v[np.abs(v) > eps] for t, v in full.items()}
        kept = {t: v[np.abs(v) > eps] for t, v in kept.items()}
        # S unchanged on kept entries: kept values of each sector are a prefix of the full sorted spectrum
        nd = 0.0
        mask = {}
        for t, v in full.items():
            kv = kept.get(t, np.zeros(0))
            if len(kv) > len(v) or not np.allclose(np.sort(kv)[::-1], np.sort(v)[::-1][:len(kv)], rtol=0, atol=1e-12 * max(1.0, float(np.max(np.abs(v))) if len(v) else 1.0)):
                raise V(PROP, "S-changed", "%s: kept values of sector %s %s are not the leading values of the spectrum %s" % (what, t, kv, v))
            order = np.argsort(-v, kind="stable")
            m = np.zeros(len(v), dtype=bool)
            m[order[:len(kv)]] = True
            mask[t] = m
            nd += float(np.sum(np.sort(v)[::-1][len(kv):] ** 2))
        for t in kept:
            if t not in full:
                raise V(PROP, "S-changed", "%s: truncated S has sector %s that the full spectrum lacks" % (what, t))
        spec = dict(full)      # eigh(which='LR'): signed eigenvalues compete; non-positive ones never survive tol >= 0
        kept_v, disc = check_mask(spec, mask, kw["tol"], kw["tol_block"], kw["D_block"], kw["D_total"], what, exact=False)
        # the truncated factorisation differs from the input by exactly the norm of the discarded values
        try:
            err = float((rec_t - ref).norm()) if rec_t.size or ref.size else 0.0
        except yastn.YastnError as e:
            raise V(PROP, "truncated-reconstruction", "%s: truncated product not comparable with the input: %s" % (what, str(e)[:100]))
        na = float(ref.norm())
        if abs(err - np.sqrt(nd)) > 1e-9 * max(1.0, na):
            raise V(PROP, "error-equals-discarded-weight", "%s: |a - U S V| = %.12g, norm of discarded values = %.12g" % (what, err, np.sqrt(nd)))
        w = core.current_world()
        w.stats["truncations"] += 1
        if len(disc):
            w.stats["truncations_binding"] += 1
        return []


def after_op(w, task, rec, outs):
    pass


def on_exception(w, task, rec, exc):
    if rec["op"] in ("trunc_mask", "trunc_svd"):
        raise core.Violation(PROP, "exception-where-result-promised", "op %d %s %s raised %s: %s" % (rec["id"], rec["op"], rec["args"], type(exc).__name__, str(exc)[:150]), op=rec["op"])


def run_seed(seed, tier):
    case = e1prop.build(seed, tier, PROP, WEIGHTS, nops=(6, 12), fermionic=False, p_disturbed=0.6)
    if case["arm"] == "disturbed":
        swarm = core.stream(seed, "swarm13")
        case["world"]["fc"]["p_lapack"] = swarm.choice([0.3, 0.6, 1.0])
        case["world"]["cache_impl"] = swarm.choice(["instrumented", "instrumented", "real"])
        case["world"]["fc"]["p_lookup"] = swarm.choice([0.05, 0.15])
    v, w, info = e1prop.simulate(case, True, after_op, on_exception, shadow=False)
    info["checked_outputs"] = w.stats.get("truncations", 0) * 2
    r = e1prop.result(case, v, w, info, seed)
    r["nontrivial"] = bool(w.stats.get("truncations_binding", 0) > 0 and (case["arm"] == "baseline" or r["disturbed_effective"]))
    return r


def replay(case):
    v, _, _ = e1prop.simulate(_copy.deepcopy(case), False, after_op, on_exception, shadow=False)
    return v


extra_evidence = e1prop.extra_evidence
