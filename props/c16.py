"""C16 — metadata caches are transparent.

Twin tasks (same skeleton and block layout, different symmetry / fermionic flags / fusion
history / policy) are interleaved on the process-global LRU tables while the simulator
clears, resizes and evicts at op boundaries (arm A, real functools.lru_cache) or at every
single lookup (arm B, instrumented tables).  Oracles: O1 every step bit-identical to the
task's isolated cold run; O2 cached values never change after insertion; O3 a hit equals
recomputation with the undecorated function; O4 exceptions agree.
"""
import copy

from sim import core, e1, e1run, e2, e2w, e3

PROP = "C16"
ENGINE = "E1"
LEVEL = "exploration"
TECHNIQUE = "deterministic simulation: seeded interleaving of twin tasks on the shared cache tables with clear/resize/evict faults at op boundaries and at every lookup; bit-identity with isolated cold runs"
RULE = ("one evaluation = one simulated world: 2-4 twin tasks x 6-14 ops generated from VERIF_SEED, cold reference per task, "
        "then one interleaved run under a seeded schedule and fault plan. Non-trivial = at least one cross-task cache hit, or at "
        "least one disturbance (clear/resize/evict) removed an entry that was looked up again later; distinct = SHA-256 of "
        "(programs, schedule, fired inner faults).")
REAL_STUB = "real: all yastn code; arm A also the real functools.lru_cache container. stub (arm B only): the LRU container (SimLRU, same contract)."
ASSUMPTIONS = ["BLAS pinned to one thread so floating point results are a function of the call sequence",
               "arm B replaces functools.lru_cache by a contract-equivalent pure-Python table"]
WALL_CAP = 1200
CHUNK = 8

WEIGHTS = dict(e1.DEFAULT_WEIGHTS)
WEIGHTS.update({"rand": 0.5, "blocks": 3, "svd": 1.5, "factor_recombine": 1, "swap_gate": 2.5, "ncon": 2, "norm": 0.2, "copy": 1})
WEIGHTS["copy"] = 0.8
WEIGHTS["fuse_pair"] = 2.5      # families with mismatched fusion histories: the mask / embedding tables


def budget(tier):
    return 1600 if tier == "quick" else 40000


def build(seed, tier):
    rng = core.stream(seed, "programs")
    swarm = core.stream(seed, "swarm")
    specs = e1run.gen_twin_family(rng)
    nops = swarm.randint(6, 14)
    wts = dict(WEIGHTS)
    for k in list(wts):   # swarm: drop a random subset of op kinds
        if k not in ("blocks",) and swarm.random() < 0.25:
            wts[k] = 0
    pseed = core.subseed(seed, "twin-skeleton")
    tasks, refs = [], {}
    for sp in specs:
        prng = core.stream(pseed, "skeleton")          # same choice stream for every twin
        prog, digs, t = e1run.generate_cold(seed, sp, prng, nops, wts, shadow=False)
        ts = dict(sp)
        ts["program"] = prog
        tasks.append(ts)
        refs[sp["id"]] = digs
    arm = "A-real-lru" if swarm.random() < 0.4 else "B-instrumented"
    world = {"cache_impl": "real" if arm.startswith("A") else "instrumented",
             "maxsize": swarm.choice(["default", 0, 1, 2, 3, 8, 1024]),
             "lapack": True, "check_hits": (tier != "quick") or swarm.random() < 0.3}
    kinds = [k for k in ("evict", "clear_table", "clear_all", "resize") if swarm.random() < 0.6] or ["evict"]
    world["fc"] = {"p_lookup": swarm.choice([0.0, 0.02, 0.05, 0.1, 0.15]), "lookup_kinds": kinds}
    srng = core.stream(seed, "schedule")
    policy = srng.choice(["round_robin", "random", "bursty", "twin_chase", "twin_chase"])
    sched = e1run.make_schedule(srng, {t["id"]: t["program"] for t in tasks}, policy,
                                swarm.choice([0.0, 0.05, 0.15, 0.3]), ["clear_all", "resize"])
    case = {"format": 1, "property": PROP, "engine": ENGINE, "arm": arm, "seed": seed, "world": world,
            "tasks": tasks, "schedule": sched, "inner": {}, "mode": "draw", "policy": policy}
    return case, refs


W_E2 = {"m_random_mps": 3, "m_random_mpo": 2, "m_product_mps": 1, "m_product_mpo": 1, "m_generate_mpo": 2, "m_from_tensor": 1, "m_add": 2, "m_scal": 1, "m_matmul": 2,
        "m_unary": 2, "m_inplace": 4, "m_measure": 2.5, "m_zipper": 1, "m_spectrum": 1, "m_dmrg_start": 0.6, "m_dmrg_step": 2, "m_tdvp_start": 0.4, "m_tdvp_step": 1.2}
W_E3 = {"p_init": 1.2, "p_prepare": 0.8, "p_gate": 5, "p_copy": 0.7, "p_add": 1, "p_env": 2, "p_measure": 4, "p_evolve": 1.5, "p_dpt": 1.5}


def build_mixed(seed, tier):
    """Container world: twin MPS tasks (same family, chain length and program skeleton; different symmetry / policy) and, in part of the
    runs, a PEPS task, interleaved on the shared tables.  Reference = the task's isolated, undisturbed run (digests taken while generating)."""
    rng = core.stream(seed, "programs")
    swarm = core.stream(seed, "swarm")
    fam = rng.choice(["SpinlessFermions", "Spin12", "Spin1", "SpinfulFermions"])
    syms = list(e2.FAMILIES[fam])
    rng.shuffle(syms)
    N = rng.randint(2, 3 if fam == "SpinfulFermions" else 4)
    specs = []
    for sym in syms[:rng.choice([2, 2, 3])]:
        specs.append({"id": len(specs), "engine": "E2", "universe": [], "tags": {"sym": sym},
                      "config": {"family": fam, "sym": sym, "N": N, "qd": 2, "tensordot_policy": rng.choice(e1run.POLICIES), "default_fusion": "hard", "no_randomised": True}})
    if rng.random() < 0.5:
        f3 = fam if fam in e3.FAMILIES3 else "Spin12"
        specs.append({"id": len(specs), "engine": "E3", "universe": [], "tags": {},
                      "config": {"family": f3, "sym": rng.choice(e3.FAMILIES3[f3]), "dims": list(rng.choice([(1, 2), (2, 1), (2, 2), (1, 3)])), "tree": False,
                                 "tensordot_policy": rng.choice(e1run.POLICIES), "default_fusion": "hard"}})
    nops = swarm.randint(6, 11)
    pseed = core.subseed(seed, "twin-skeleton")
    tasks, refs = [], {}
    for sp in specs:
        prng = core.stream(pseed, "skeleton")
        e2kind = sp["engine"] == "E2"
        prog, digs, t = e1run.generate_cold(seed, sp, prng, nops, dict(W_E2 if e2kind else W_E3), seed_ops=("m_random_mps", "m_random_mpo") if e2kind else ("p_init",),
                                            cache_impl="real")
        ts = dict(sp)
        ts["program"] = prog
        tasks.append(ts)
        refs[sp["id"]] = digs
    arm = "A-real-lru" if swarm.random() < 0.4 else "B-instrumented"
    world = {"cache_impl": "real" if arm.startswith("A") else "instrumented", "maxsize": swarm.choice(["default", 0, 1, 2, 3, 8, 1024]),
             "lapack": True, "check_hits": swarm.random() < 0.2}
    kinds = [k for k in ("evict", "clear_table", "clear_all", "resize") if swarm.random() < 0.6] or ["evict"]
    world["fc"] = {"p_lookup": swarm.choice([0.0, 0.005, 0.02, 0.05]), "lookup_kinds": kinds}
    srng = core.stream(seed, "schedule")
    policy = srng.choice(["round_robin", "random", "bursty", "twin_chase"])
    sched = e1run.make_schedule(srng, {t["id"]: t["program"] for t in tasks}, policy, swarm.choice([0.0, 0.05, 0.15, 0.3]), ["clear_all", "resize"])
    case = {"format": 1, "property": PROP, "engine": "E2+E3", "arm": arm, "seed": seed, "world": world, "tasks": tasks, "schedule": sched,
            "inner": {}, "mode": "draw", "policy": policy, "reference": "isolated-undisturbed-real-cache"}
    # like for like: the reference is an isolated, undisturbed execution of each task's final program (the generation pass also ran the shadows)
    return case, reference(case)


def reference(case):
    """Cold isolated run of every task of a case (used by replay, where programs may be shrunk)."""
    refs = {}
    for ts in case["tasks"]:
        sub = {"seed": case["seed"], "world": {"cache_impl": "real" if case.get("reference") else "off", "lapack": False}, "tasks": [ts],
               "schedule": [["op", ts["id"], r["id"]] for r in ts["program"]], "inner": {}, "mode": "plan"}
        digs = {}

        def on_step(w, task, rec, res, digs=digs):
            digs[rec["id"]] = [e1run.exc_digest(res)] if isinstance(res, Exception) else e1run.step_digests(task, rec)
        e1run.run_case(sub, on_step)
        refs[ts["id"]] = digs
    return refs


def simulate(case, refs):
    """Interleaved run; returns (violation dict | None, world)."""
    def on_step(w, task, rec, res):
        exp = refs[task.id].get(rec["id"])
        got = [e1run.exc_digest(res)] if isinstance(res, Exception) else e1run.step_digests(task, rec)
        if exp != got:
            if isinstance(res, Exception) or (exp and exp[0].startswith("EXC:")):
                raise core.Violation(PROP, "O4-exception-differs", "task %s op %s (%s): isolated cold run gave %s, simulated run gave %s (%s)"
                                     % (task.id, rec["id"], rec["op"], exp, got, res if isinstance(res, Exception) else ""),
                                     task=task.id, uid=rec["id"], op=rec["op"])
            raise core.Violation(PROP, "O1-result-differs-from-cold-run", "task %s op %s (%s): result is not bit-identical to the isolated cold run"
                                 % (task.id, rec["id"], rec["op"]), task=task.id, uid=rec["id"], op=rec["op"])
    w = None
    try:
        w = e1run.run_case(case, on_step)
        return None, w
    except core.Violation as v:
        return v.as_dict(), core_world_last()


_LAST = [None]


def core_world_last():
    return _LAST[0]


_orig_world_init = core.World.__init__


def _init(self, *a, **k):
    _orig_world_init(self, *a, **k)
    _LAST[0] = self


core.World.__init__ = _init


def run_seed(seed, tier):
    mixed = core.stream(seed, "object-world").random() < 0.25
    case, refs = build_mixed(seed, tier) if mixed else build(seed, tier)
    v, w = simulate(case, refs)
    w = w or _LAST[0]
    case["inner"] = dict(w.inner_fired)
    case["mode"] = "plan"
    st = dict(w.stats)
    nontrivial = st.get("cross_task_hits", 0) > 0 or st.get("refill_after_disturbance", 0) > 0
    st["effective_refill_after_disturbance"] = st.pop("refill_after_disturbance", 0)
    st["effective_cross_task_hits"] = st.get("cross_task_hits", 0)
    st["gen_rejected_ops"] = 0
    out = {"violation": v, "case": case if v else None, "stats": st, "probes": dict(w.probes),
           "digest": e1run.schedule_digest(case), "nontrivial": bool(nontrivial), "arm": case["arm"],
           "sample": e1run.brief_case(case) if seed % 500 == 0 else None, "world_kind": "containers" if mixed else "tensors"}
    return out


def extra_evidence(results):
    k = {}
    for r in results:
        k[r.get("world_kind", "tensors")] = k.get(r.get("world_kind", "tensors"), 0) + 1
    return {"runs_by_object_world": {"twin tensor tasks (E1)": k.get("tensors", 0), "twin MPS tasks + PEPS task incl. dmrg_/tdvp_ workers, environments (E2+E3)": k.get("containers", 0)}}


def replay(case):
    case = copy.deepcopy(case)
    case["mode"] = "plan"
    refs = reference(case)
    v, _ = simulate(case, refs)
    return v
