"""C15 — operations never modify their operands; copies are independent.

A history of public operations runs over a pool in which every result stays live and
view-returning ops are over-sampled, so aliasing is everywhere.  A mutator injects the
documented in-place API (item assignment, set_block) at arbitrary op boundaries on
arbitrary live objects.  Before and after EVERY op a byte-level snapshot of ALL live objects
is taken (not only the arguments).

 O1  a non-in-place op changes no live object (arguments and dict arguments included);
 O2  an in-place op on X changes only X and objects that physically share memory with X;
 O3  copy()/clone() results share no memory with their source (so by O2 neither follows the other);
 O4  results documented as independent stay untouched when the source is mutated later, and vice versa
     (implied by O2+O3; additionally checked end-to-end on value level for copy/clone pairs).
"""
import copy as _copy

import numpy as np

from sim import core, e1, e1run, e2, e2w, e3
from sim.core import yastn

import yastn.tn.mps as mps
import yastn.tn.fpeps as fpeps

PROP = "C15"
ENGINE = "E1"
LEVEL = "exploration"
TECHNIQUE = "deterministic simulation: seeded operation histories over an aliased object pool with injected in-place mutations (F7), cache and LAPACK faults; byte snapshots of all live objects around every call"
RULE = ("one evaluation = one simulated history (10-22 ops + injected in-place mutations, optional cache/LAPACK faults) over a pool of live, "
        "aliased tensors; every op is bracketed by byte snapshots of all live objects. Non-trivial = the history contained at least one "
        "pair of live objects sharing memory when an op ran AND (at least one injected in-place mutation hit an object with live aliases "
        "or copies, or a fault fired); distinct = SHA-256 of (program, mutation events, fired faults).")
REAL_STUB = "real: all yastn code, numpy/scipy; real lru_cache in arm A. stub: LRU container (arm B), LAPACK primary-driver failure injected through a scipy proxy."
ASSUMPTIONS = ["snapshot = struct, slices, hfs, mfs, trans, dtype and data bytes of every live tensor; deep canonical form of dict arguments",
               "sharing is measured with numpy.shares_memory on the 1-D data arrays"]
WALL_CAP = 1200
CHUNK = 8

WEIGHTS = dict(e1.DEFAULT_WEIGHTS)
WEIGHTS.update({"conj": 3, "transpose": 4, "copy": 3, "fuse": 3.5, "unfuse": 3, "add_leg": 2, "remove_leg": 2, "svd": 2.5,
                "observe": 1.5, "eigh_gram": 1, "swap_gate": 1.5, "dict_arg": 1.5, "blocks": 1, "entropy": 1.2, "rand_diag": 2})


def budget(tier):
    return 3000 if tier == "quick" else 30000


# ---- C15-specific ops ---------------------------------------------------------------------------------

@e1.register
class OpDictArg(e1.Op):
    """to_dict / from_dict and split/combine with the *dictionary* as the observed argument:
    from_dict returns a new object, so it must leave the dictionary it was given untouched."""
    name = "dict_arg"
    shares = True

    def gen(self, g):
        a = g.pick_tensor()
        if a is None:
            return None
        return {"op": "dict_arg", "in": [a], "args": {"level": g.rng.choice([0, 1, 2]), "gen1": g.rng.random() < 0.35,
                                                     "route": g.rng.choice(["method", "function", "split"])}}

    def run(self, task, rec, ins):
        a, ar = ins[0], rec["args"]
        d = a.to_dict(level=ar["level"])
        if ar["gen1"] and tuple(a.trans) == tuple(range(a.ndim_n)):
            d.pop("trans", None)      # generation-1 dictionary (no 'trans' field)
            d["dict_ver"] = 1
        before = core.canon(d)
        keys_before = sorted(d.keys())
        if ar["route"] == "split":
            data, meta = yastn.split_data_and_meta(d)
            m0 = core.canon(meta)
            d2 = yastn.combine_data_and_meta(data, meta)
            if core.canon(meta) != m0 and not getattr(core.current_world(), "generating", False):
                raise core.Violation(PROP, "O1-dict-argument-modified", "combine_data_and_meta changed its meta argument")
            x = yastn.Tensor.from_dict(d2)
        elif ar["route"] == "function":
            x = yastn.from_dict(d)
        else:
            x = yastn.Tensor.from_dict(d)
        after = core.canon(d)
        if before != after and not getattr(core.current_world(), "generating", False):
            raise core.Violation(PROP, "O1-dict-argument-modified",
                                 "from_dict changed the dictionary it was given (level %d, generation %d): keys %s -> %s"
                                 % (ar["level"], 1 if ar["gen1"] else 2, keys_before, sorted(d.keys())), op="dict_arg")
        return [x]

    def shadow(self, task, rec, sins, outs, ins=None):
        a = sins[0]
        return [e1.Shadow(a.arr, a.axes, a.tree, a.n, a.sym, a.isdiag)]


@e1.register
class OpContainerDict(e1.Op):
    """to_dict -> from_dict of a container (MPS/MPO, Peps, environment) with the dictionary as the observed argument."""
    name = "c_dict"
    shares = True

    def gen(self, g):
        c = [s for s, v in g.task.slots.items() if meta_of(v) is not None and not isinstance(v, fpeps.DoublePepsTensor)]
        if not c:
            return None
        return {"op": "c_dict", "in": [g.rng.choice(c)], "args": {"level": g.rng.choice([0, 1, 2]), "route": g.rng.choice(["method", "function", "legacy"])}}

    def run(self, task, rec, ins):
        a, ar = ins[0], rec["args"]
        if ar["route"] == "legacy" and hasattr(a, "save_to_dict"):
            import warnings
            with warnings.catch_warnings():
                warnings.simplefilter("ignore")
                d = a.save_to_dict()
                before = core.canon(d)
                x = mps.load_from_dict(task.cfg, d) if isinstance(a, mps.MpsMpoOBC) else fpeps.load_from_dict(task.cfg, d)
        else:
            d = a.to_dict(level=ar["level"])
            before = core.canon(d)
            x = type(a).from_dict(d) if ar["route"] == "method" else yastn.from_dict(d)
        if core.canon(d) != before and not getattr(core.current_world(), "generating", False):
            raise core.Violation(PROP, "O1-dict-argument-modified", "%s.from_dict changed the dictionary it was given (level %d, route %s)"
                                 % (type(a).__name__, ar["level"], ar["route"]), op="c_dict")
        return [x]

    def shadow(self, task, rec, sins, outs, ins=None):
        return [sins[0].copy() if hasattr(sins[0], "copy") else sins[0]]


@e1.register
class OpContainerCopy(e1.Op):
    """copy / clone / shallow_copy of any container, biased to objects in unusual states (MPS with a central block)."""
    name = "c_copy"
    shares = True

    def gen(self, g):
        c = [s for s, v in g.task.slots.items() if meta_of(v) is not None and hasattr(v, "copy") and not isinstance(v, fpeps.DoublePepsTensor)]
        if not c:
            return None
        special = [s for s in c if getattr(g.task.slots[s], "pC", None) is not None]
        a = g.rng.choice(special) if special and g.rng.random() < 0.6 else g.rng.choice(c)
        kinds = [k for k in ("copy", "clone", "shallow_copy") if hasattr(g.task.slots[a], k)]
        return {"op": "c_copy", "in": [a], "args": {"kind": g.rng.choice(kinds)}}

    def run(self, task, rec, ins):
        return [getattr(ins[0], rec["args"]["kind"])()]

    def shadow(self, task, rec, sins, outs, ins=None):
        return [sins[0].copy() if hasattr(sins[0], "copy") else sins[0]]


@e1.register
class OpEntropy(e1.Op):
    """yastn.entropy on a pool tensor (diagonal, un-normalised weights): returns a number and must leave the operand alone."""
    name = "entropy"

    def gen(self, g):
        a = g.pick_tensor(lambda s, v, sh: v.isdiag and v.size > 0 and not v.is_complex())
        if a is None:
            return None
        return {"op": "entropy", "in": [a], "args": {"alpha": g.rng.choice([1, 1, 2, 0.5])}}

    def run(self, task, rec, ins):
        import warnings
        with warnings.catch_warnings():
            warnings.simplefilter("ignore")          # weights may be negative here: the value is irrelevant, the operand is what is watched
            return [float(np.real(yastn.entropy(ins[0], alpha=rec["args"]["alpha"])))]

    def shadow(self, task, rec, sins, outs, ins=None):
        return [None]


@e1.register
class OpDptMake(e1.Op):
    """A two-layer PEPS tensor as a pool object (optionally with an operator and charge swaps), and its documented views."""
    name = "p_dpt_make"
    creates = True

    def gen(self, g):
        t = g.task
        peps = [s for s, v in t.slots.items() if e3.is_peps(v)]
        dpts = [s for s, v in t.slots.items() if isinstance(v, fpeps.DoublePepsTensor)]
        if dpts and g.rng.random() < 0.5:
            return {"op": "p_dpt_make", "in": [g.rng.choice(dpts)], "args": {"kind": g.rng.choice(["copy", "clone", "transpose", "conj", "flip_signature"]), "k": g.rng.randrange(4)}}
        if not peps:
            return None
        ch = sorted(t.space.charged())
        swaps = []
        if ch and g.rng.random() < 0.7:
            for _ in range(g.rng.randint(1, 3)):
                swaps.append([g.rng.choice("bk") + str(g.rng.randrange(5)), list(t.space.table[g.rng.choice(ch)].n)])
        return {"op": "p_dpt_make", "in": [g.rng.choice(peps)], "args": {"kind": "new", "site": list(g.rng.choice(t.sites)), "with_op": g.rng.choice([None] + sorted(t.space.table)), "swaps": swaps}}

    def run(self, task, rec, ins):
        ar = rec["args"]
        if ar["kind"] == "new":
            A = ins[0][tuple(ar["site"])]
            d = fpeps.DoublePepsTensor(bra=A, ket=A)
            if ar["with_op"]:
                d.set_operator_(task.space.table[ar["with_op"]])
            for ax, ch in ar["swaps"]:
                d.add_charge_swaps_(tuple(ch), ax)
            return [d]
        if ar["kind"] == "transpose":
            return [ins[0].transpose(axes=e3.ALLOWED_TRANS[ar["k"]])]
        return [getattr(ins[0], ar["kind"])()]

    def shadow(self, task, rec, sins, outs, ins=None):
        return [None]


@e1.register
class OpDptInplace(e1.Op):
    """Documented in-place API of the two-layer tensor: add_charge_swaps_, del_charge_swaps_, set_operator_, del_operator_."""
    name = "p_dpt_inplace"
    inplace = True

    def nout(self, rec):
        return 0

    def gen(self, g):
        t = g.task
        dpts = [s for s, v in t.slots.items() if isinstance(v, fpeps.DoublePepsTensor)]
        ch = sorted(t.space.charged())
        if not dpts:
            return None
        kind = g.rng.choice(["add_swaps", "add_swaps", "add_swaps", "del_swaps", "set_op", "del_op"] if ch else ["set_op", "del_op"])
        args = {"kind": kind}
        if kind == "add_swaps":
            args["charge"] = list(t.space.table[g.rng.choice(ch)].n)
            args["axes"] = [g.rng.choice("bk") + str(g.rng.randrange(5)) for _ in range(g.rng.randint(1, 2))]
        if kind == "set_op":
            args["op"] = g.rng.choice(sorted(t.space.table))
        return {"op": "p_dpt_inplace", "in": [g.rng.choice(dpts)], "args": args}

    def run(self, task, rec, ins):
        d, ar = ins[0], rec["args"]
        if ar["kind"] == "add_swaps":
            d.add_charge_swaps_(tuple(ar["charge"]), ar["axes"])
        elif ar["kind"] == "del_swaps":
            d.del_charge_swaps_()
        elif ar["kind"] == "set_op":
            d.set_operator_(task.space.table[ar["op"]])
        else:
            d.del_operator_()
        return []


def list_blocks(x):
    """(logical key, shape) of the blocks of x, by trial block access only."""
    import itertools
    legs = x.get_legs(native=True)
    if x.isdiag:
        out = []
        for t in legs[0].t:
            try:
                out.append((tuple(t) + tuple(t), x[tuple(t) + tuple(t)].shape))
            except yastn.YastnError:
                pass
        return out
    if x.config.sym.NSYM == 0:
        try:
            return [((), x[()].shape)]
        except yastn.YastnError:
            return []
    out = []
    for combo in itertools.product(*[l.t for l in legs]):
        key = tuple(itertools.chain(*combo))
        try:
            out.append((key, x[key].shape))
        except yastn.YastnError:
            continue
        if len(out) > 64:
            break
    return out


from sim.containers import parts, meta_of  # noqa: E402


# ---- snapshots -------------------------------------------------------------------------------------------------

def snap(v):
    if isinstance(v, yastn.Tensor):
        return core.tensor_canon(v)
    m = meta_of(v)
    if m is not None:
        return core.canon({"meta": m, "parts": {k: core.tensor_canon(t) for k, t in parts(v).items()}})
    return core.canon(v)


def snapshot_all(task):
    return {s: snap(v) for s, v in task.slots.items()}


def _share(t1, t2):
    return t1._data is t2._data or bool(t1._data.size and t2._data.size and np.shares_memory(t1._data, t2._data))


def sharing(task):
    """Undirected sharing graph over live slots (tensors and containers of tensors)."""
    items = [(s, list(parts(v).values())) for s, v in task.slots.items()]
    items = [(s, ts) for s, ts in items if ts]
    out = {}
    for i, (s, ts) in enumerate(items):
        for s2, ts2 in items[i + 1:]:
            if any(_share(a, b) for a in ts for b in ts2):
                out.setdefault(s, set()).add(s2)
                out.setdefault(s2, set()).add(s)
    return out


# ---- mutations (documented in-place API) ----------------------------------------------------------------------------

def draw_mutation(task, rng):
    cands = []
    for s, v in task.slots.items():
        for name, t in sorted(parts(v).items()):
            if t.size > 0 and t.yastn_dtype != "bool":
                cands.append((s, name))
    if not cands:
        return None
    s, name = rng.choice(cands)
    x = parts(task.slots[s])[name]
    blocks = list_blocks(x)
    if not blocks:
        return None
    key, shape = rng.choice(blocks)
    kind = rng.choice(["setitem", "setitem", "set_block", "setitem_scaled"])
    return ["mut", task.id, s, kind, [int(k) for k in key], rng.randrange(1 << 30), name]


def apply_mutation(task, ev):
    _, _, s, kind, key, vseed = ev[:6]
    x = parts(task.slots[s]).get(ev[6] if len(ev) > 6 else "")
    if x is None:
        raise yastn.YastnError("part gone")
    key = tuple(key)
    blk = x[key]
    r = np.random.default_rng(vseed)
    val = r.uniform(-1, 1, size=blk.shape)
    if np.iscomplexobj(blk):
        val = val + 1j * r.uniform(-1, 1, size=blk.shape)
    if kind == "setitem":
        x[key] = val
    elif kind == "setitem_scaled":
        x[key] = blk * 2.0 + 1.0
    else:
        x.set_block(ts=key, val=val if not x.isdiag else val, Ds=blk.shape if not x.isdiag else blk.shape[:1])


# ---- one simulated history ----------------------------------------------------------------------------------------------

WEIGHTS_E2 = {"m_random_mps": 3, "m_random_mpo": 1.5, "m_product_mps": 0.7, "m_add": 1.5, "m_scal": 1, "m_matmul": 1, "m_unary": 6, "m_inplace": 6,
              "m_measure": 1.5, "m_zipper": 0.7, "m_spectrum": 1, "c_dict": 2, "c_copy": 5}
WEIGHTS_E3 = {"p_init": 1.2, "p_prepare": 0.6, "p_gate": 5, "p_copy": 4, "p_add": 1, "p_env": 1.5, "p_measure": 3, "p_evolve": 1.2, "p_dpt": 1, "c_dict": 2, "c_copy": 3, "p_dpt_make": 3, "p_dpt_inplace": 3}


def build(seed, tier):
    rng = core.stream(seed, "programs")
    swarm = core.stream(seed, "swarm")
    world_kind = swarm.choice(["E1", "E1", "E1", "E2", "E2", "E3"])
    if world_kind == "E1":
        from sim.models.group import SYM_NAMES
        sym = rng.choice(SYM_NAMES)
        cfg = {"sym": sym, "fermionic": rng.choice(e1run.fermionic_choices(sym)), "tensordot_policy": rng.choice(e1run.POLICIES),
               "default_fusion": rng.choice(["hard", "meta"]), "force_fusion": None}
        spec = {"id": 0, "config": cfg, "universe": [u.to_json() for u in e1.gen_universe(sym, rng)], "tags": {}}
        nops = swarm.randint(10, 22)
        wts = dict(WEIGHTS)
        for k in list(wts):
            if swarm.random() < 0.2:
                wts[k] = 0
        prog, digs, t = e1run.generate_cold(seed, spec, rng, nops, wts, seed_ops=("rand",))
    elif world_kind == "E2":
        fam = rng.choice(["SpinlessFermions", "Spin12", "Spin1", "SpinfulFermions"])
        cfg = {"family": fam, "sym": rng.choice(e2.FAMILIES[fam]), "N": rng.randint(2, 4 if fam == "SpinfulFermions" else 5), "qd": 2,
               "tensordot_policy": rng.choice(e1run.POLICIES), "default_fusion": "hard"}
        spec = {"id": 0, "engine": "E2", "config": cfg, "universe": [], "tags": {}}
        prog, digs, t = e1run.generate_cold(seed, spec, rng, swarm.randint(10, 18), dict(WEIGHTS_E2), seed_ops=("m_random_mps", "m_random_mpo"), cache_impl="real")
    else:
        fam = rng.choice(["SpinlessFermions", "SpinlessFermions", "Spin12", "SpinfulFermions"])
        dims = list(rng.choice([(1, 2), (2, 1), (2, 2), (2, 2), (1, 3), (3, 1)] + ([(2, 3), (3, 2)] if fam != "SpinfulFermions" else [])))
        cfg = {"family": fam, "sym": rng.choice(e3.FAMILIES3[fam]), "dims": dims, "tree": min(dims) == 1,
               "tensordot_policy": rng.choice(e1run.POLICIES), "default_fusion": "hard"}
        spec = {"id": 0, "engine": "E3", "config": cfg, "universe": [], "tags": {}}
        prog, digs, t = e1run.generate_cold(seed, spec, rng, swarm.randint(8, 14), dict(WEIGHTS_E3), seed_ops=("p_init",), cache_impl="real")
    ts = dict(spec)
    ts["program"] = prog
    arm = swarm.choice(["baseline", "disturbed", "disturbed"])
    world = {"cache_impl": "real", "maxsize": "default", "lapack": True, "fc": {}}
    if arm == "disturbed":
        world["cache_impl"] = swarm.choice(["real", "instrumented", "instrumented"])
        world["maxsize"] = swarm.choice(["default", 0, 1, 2, 8])
        world["fc"] = {"p_lookup": swarm.choice([0.0, 0.03, 0.1]), "lookup_kinds": ["evict", "clear_table", "clear_all", "resize"],
                       "p_lapack": swarm.choice([0.0, 0.2, 0.5, 1.0])}
    if world_kind != "E1":
        world["fc"] = dict(world["fc"], p_lookup=min(world["fc"].get("p_lookup", 0.0), 0.03)) if world["fc"] else world["fc"]
    case = {"format": 1, "property": PROP, "engine": world_kind, "arm": arm, "seed": seed, "world": world, "tasks": [ts],
            "schedule": [["op", 0, r["id"]] for r in prog], "inner": {}, "mode": "draw",
            "p_mut": swarm.choice([0.0, 0.1, 0.25, 0.4]) if arm != "baseline" else swarm.choice([0.0, 0.15])}
    return case


def simulate(case, draw):
    """Runs the history.  draw=True: mutation events are drawn and inserted into the schedule."""
    wcfg = case["world"]
    kw = dict(cache_impl=wcfg["cache_impl"], maxsize=wcfg["maxsize"], lapack=True)
    if draw:
        w = core.World(case["seed"], fc=wcfg.get("fc", {}), **kw)
    else:
        w = core.World(case["seed"], plan=case.get("inner", {}), **kw)
    mrng = core.stream(case["seed"], "mutations")
    ts = case["tasks"][0]
    task = e1.task_from_spec(ts)
    progs = {r["id"]: r for r in ts["program"]}
    sched_out = []
    info = {"shared_pairs_seen": 0, "mut_on_aliased": 0, "mut": 0, "unexpected_exceptions": 0, "copy_pairs": 0, "ops": 0}
    copies = []   # (src slot, copy slot)
    try:
        events = list(case["schedule"])
        i = 0
        while i < len(events):
            ev = events[i]
            i += 1
            if ev[0] == "op" and draw and case.get("p_mut") and mrng.random() < case["p_mut"]:
                m = draw_mutation(task, mrng)
                if m is not None:
                    events.insert(i - 1, m)
                    i -= 1
                    continue_mut = True
                    ev = events[i]
                    i += 1
            sched_out.append(ev)
            before = snapshot_all(task)
            if ev[0] == "mut":
                _, _, s, kind, key, vseed = ev[:6]
                if s not in task.slots:
                    continue
                sh = sharing(task)
                allowed = {s} | sh.get(s, set())
                w.begin_op(0, "m%d" % len(sched_out))
                try:
                    apply_mutation(task, ev)
                except (yastn.YastnError, ValueError, KeyError):   # e.g. read-only storage of imag() of a real tensor
                    info["unexpected_exceptions"] += 1
                info["mut"] += 1
                if len(allowed) > 1 or any(s in pr for pr in copies):
                    info["mut_on_aliased"] += 1
                after = snapshot_all(task)
                for k in before:
                    if k not in allowed and before[k] != after[k]:
                        how = "copy()/clone() result or source" if any(k in pr and s in pr for pr in copies) else "object that shares no memory with it"
                        raise core.Violation(PROP, "O2-inplace-leaks", "in-place %s on slot %d changed slot %d (%s)" % (kind, s, k, how),
                                             op=kind, slot=k)
                continue
            rec = progs[ev[2]]
            op = e1.OPS[rec["op"]]
            sh = sharing(task)
            if sh:
                info["shared_pairs_seen"] += 1
            w.begin_op(0, rec["id"])
            info["ops"] += 1
            try:
                if not all(s in task.slots for s in rec["in"]):
                    continue
                outs, _ = e1.execute(task, rec, w, shadow=False)
            except core.Violation:
                raise
            except (yastn.YastnError, np.linalg.LinAlgError, ValueError, TypeError, KeyError, IndexError, ZeroDivisionError, FloatingPointError):
                # no object was returned: not a C15 matter (DESIGN section 6); counted
                info["unexpected_exceptions"] += 1
                outs = None
            except Exception as e:  # noqa: BLE001
                if case["engine"] == "E1":
                    raise
                # container worlds run solvers on states carrying injected random blocks: any exception means "no object returned" (counted by type)
                info["unexpected_exceptions"] += 1
                w.probes["container_op_raised_%s" % type(e).__name__] += 1
                outs = None
            after = snapshot_all(task)
            allowed = set()
            if op.inplace and rec["in"]:
                # documented in-place API (methods ending in '_'): the receiver and whatever physically shares memory with it may change
                allowed = {rec["in"][0]} | sh.get(rec["in"][0], set())
                info["inplace_container_ops"] = info.get("inplace_container_ops", 0) + 1
                if len(allowed) > 1 or any(rec["in"][0] in pr for pr in copies):
                    info["mut_on_aliased"] += 1
            for k in before:
                if k not in allowed and before[k] != after[k]:
                    role = "argument" if k in rec["in"] else "live object that is not even an argument"
                    if op.inplace:
                        role = "copy()/clone() result or source" if any(k in pr and rec["in"][0] in pr for pr in copies) else "object that shares no memory with the receiver"
                    raise core.Violation(PROP, "O2-inplace-leaks" if op.inplace else "O1-operand-modified", "op %s %s changed slot %d (%s)" % (rec["op"], rec["args"], k, role),
                                         op=rec["op"], slot=k, kind=str(rec["args"].get("kind")))
            if outs is not None and rec["op"] in ("copy", "m_unary", "p_copy", "c_copy", "p_dpt_make") and rec["args"]["kind"] in ("copy", "clone"):
                src, dst = task.slots[rec["in"][0]], outs[0]
                info["copy_pairs"] += 1
                copies.append((rec["in"][0], rec["out"][0]))
                ps, pd = parts(src), parts(dst)
                if isinstance(src, (fpeps.EnvBoundaryMPS, fpeps.EnvCTM, fpeps.EnvBP)):
                    # an environment's copy()/clone() is documented to make the ENVIRONMENT tensors independent; the state psi it refers to is
                    # a reference to the caller's object (shared by copy(); cloned by EnvCTM.clone() only) and is not held to independence here
                    ps = {k: t for k, t in ps.items() if k.startswith("env")}
                    pd = {k: t for k, t in pd.items() if k.startswith("env")}
                bad = [(a, b) for a, ta in ps.items() for b, tb in pd.items() if _share(ta, tb)]
                if bad:
                    raise core.Violation(PROP, "O3-copy-shares-memory", "%s() result of a %s shares memory with its source (parts %s)"
                                         % (rec["args"]["kind"], type(src).__name__, bad[:2]), op=rec["op"], kind=rec["args"]["kind"])
                if set(ps) != set(pd):
                    raise core.Violation(PROP, "O3-copy-incomplete", "%s() result of a %s holds parts %s, the source %s"
                                         % (rec["args"]["kind"], type(src).__name__, sorted(pd)[:6], sorted(ps)[:6]), op=rec["op"], kind=rec["args"]["kind"])
            v = w.take_violation()
            if v is not None and v.prop == PROP:
                raise v
        w.close()
        return None, w, sched_out, info
    except core.Violation as v:
        try:
            w.close()
        except Exception:
            pass
        return v.as_dict(), w, sched_out, info


def run_seed(seed, tier):
    case = build(seed, tier)
    v, w, sched, info = simulate(case, draw=True)
    case["schedule"] = sched
    case["inner"] = dict(w.inner_fired)
    case["mode"] = "plan"
    st = dict(w.stats)
    st.update({k: v2 for k, v2 in info.items()})
    st["fault_inplace_mutation"] = info["mut"]
    st["effective_inplace_on_aliased_or_copied"] = info["mut_on_aliased"]
    st["effective_lapack_fallback"] = st.get("fault_lapack_fail", 0)
    st["events"] = len(sched)
    nontrivial = info["shared_pairs_seen"] > 0 and (info["mut_on_aliased"] > 0 or len(w.inner_fired) > 0)
    return {"violation": v, "case": case if v else None, "stats": st, "probes": dict(w.probes),
            "digest": e1run.schedule_digest(case), "nontrivial": bool(nontrivial), "arm": case["arm"],
            "sample": e1run.brief_case(case) if seed % 400 == 0 else None,
            "ops_seen": sorted({r["op"] + ":" + str(r["args"].get("kind", "")) for r in case["tasks"][0]["program"]}),
            "world_kind": case["engine"]}


def replay(case):
    case = _copy.deepcopy(case)
    v, _, _, _ = simulate(case, draw=False)
    return v


def extra_evidence(results):
    ops = set()
    kinds = {}
    for r in results:
        ops.update(r.get("ops_seen", []))
        kinds[r.get("world_kind", "E1")] = kinds.get(r.get("world_kind", "E1"), 0) + 1
    return {"op_kinds_exercised": sorted(ops), "n_op_kinds_exercised": len(ops),
            "runs_by_object_world": {"tensors (E1)": kinds.get("E1", 0), "MPS/MPO (E2)": kinds.get("E2", 0), "PEPS and environments (E3)": kinds.get("E3", 0)}}
