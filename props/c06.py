"""C06 — MPS/MPO algebra agrees with the states and operators it represents (thin).

Expression programs over a pool of MPS/MPO (N 1-7; spin-1/2, spin-1, spinless/spinful fermions,
qudits; every supported symmetry): add with amplitudes, scalar multiplication incl. 0 / negative /
complex (separate factor), @ MPO.MPS and MPO.MPO (mode hard/meta), conj, transpose, H,
reverse_sites, product states, mps_from_tensor, measure_overlap, measure_mpo (single, sums),
zipper and variational compression (a stepped worker, interleaved with observers and cancellation)
without truncation.  Oracle: dense vectors/matrices contracted by the model (incl. central block
and factor) and NumPy arithmetic.
"""
import copy as _copy

from sim import core, e1, e1prop, e2, e2prop

PROP = "C06"
ENGINE = "E2"
LEVEL = "exploration"
LEVEL_TEXT = ("THIN as a simulation target. Baseline arm: seeded expression programs over MPS/MPO (incl. periodic MPOs in measure_mpo and zipper) vs dense NumPy objects contracted by the model. Disturbed arm (simulation proper): "
              "multiply mode/tensordot policy/default fusion as knobs, cache faults at every lookup, the compression_ iterator stepped by the scheduler with observers "
              "looking at psi between sweeps and cancellation after any yield. Sampling, not proof.")
LEVEL_NOTE = "Trusted: NumPy; sim/models/mps_dense.py (contracts site tensors incl. central block and factor; embeds each bond in the union of the sectors meeting there); yastn.legs_union/to_numpy."
TECHNIQUE = "seeded expression programs over MPS/MPO vs a dense reference model (baseline); knob schedules, cache faults at every lookup and a stepped compression_ worker with observers/cancellation (disturbed, deterministic simulation)"
RULE = ("one evaluation = one program (8-16 ops) over MPS/MPO with every output compared with its dense model value. Non-trivial = at least 4 outputs compared and, for disturbed "
        "runs, an effective disturbance (knobs differ from the suite's, cache entry refilled after a fault, worker stepped with interleaved observers); distinct = SHA-256 of (program, schedule, fired faults).")
REAL_STUB = "real: yastn.tn.mps and everything below it. stub: LRU container in instrumented-cache runs."
ASSUMPTIONS = ["chain lengths 1-7 (spinful fermions <= 4, spin-1/qudits <= 5) so that dense objects stay small", "tolerance 1e-10 * scale"]
CHUNK = 4


def budget(tier):
    return 3000 if tier == "quick" else 12000


def after_op(w, task, rec, outs):
    for q, s in enumerate(rec["out"]):
        what = "op %d %s %s output %d" % (rec["id"], rec["op"], rec["args"], q)
        try:
            e2.compare_dense(task, task.slots[s], task.shadows.get(s), PROP, what)
        except core.Violation as v:
            v.where.update({"op": rec["op"], "kind": str(rec["args"].get("kind"))})
            raise


def on_exception(w, task, rec, exc):
    if rec["op"] in ("m_measure", "m_zipper", "m_compression", "m_inplace") and e2.known_meta_product(task, rec, exc):
        return
    if rec["op"] in ("m_random_mps", "m_random_mpo") and "zero state" in str(exc):
        return      # documented outcome of the random initialiser for narrow bond dimensions
    raise core.Violation(PROP, "exception-where-result-promised", "op %d %s %s raised %s: %s" % (rec["id"], rec["op"], rec["args"], type(exc).__name__, str(exc)[:150]), op=rec["op"])


def run_seed(seed, tier):
    case = e2prop.build(seed, tier, PROP, e2.E2_WEIGHTS_C06)
    v, w, info = e1prop.simulate(case, True, after_op, on_exception)
    return e1prop.result(case, v, w, info, seed, sample_every=100)


def replay(case):
    v, _, _ = e1prop.simulate(_copy.deepcopy(case), False, after_op, on_exception)
    return v


extra_evidence = e1prop.extra_evidence
