"""C05 — fermionic signs are consistent and order-independent (thin).

 swap_check : swap_gate on every grouping of legs, both call forms (pairs of leg groups; virtual
              leg of given charge), on tensors produced by histories (lazy, fused, odd/even
              parity): dense sign model from the model group/parity law; involution exact;
              bosonic configuration returns the very same object.
 ncon_orders: small networks (2-4 tensors, open and closed, swap pairs on open and on contracted
              legs, parity-odd members, conjugations); the CONTRACTION ORDER IS A SCHEDULE:
              every admissible order of the contracted labels (all when <= 24, else a seeded
              sample) must give the same tensor; it must equal numpy.einsum with the model's
              sign matrices.
 fkron_jw   : Kronecker products of operators of every operator class over all site permutations
              and application orders vs dense Jordan-Wigner matrices; canonical anticommutation
              relations in the declared site order.
Disturbed arm: cache faults (clear/resize/evict at every lookup) aimed at _meta_ncon and
_meta_swap_gate*, knob variation, buggify.
"""
import copy as _copy
import itertools

import numpy as np

from sim import core, e1, e1prop, e1run
from sim.core import yastn
from sim.models import jw
from sim.models.group import Sym

PROP = "C05"
ENGINE = "E1"
LEVEL = "exploration"
LEVEL_TEXT = ("THIN as a simulation target. Contraction orders, site permutations and application orders are sampled as schedules (all orders when <= 24); "
              "results are compared with each other (order independence) and with a dense sign / Jordan-Wigner model. Disturbed arm: cache faults at every "
              "lookup of the swap/ncon metadata tables, knob variation, buggify events. Sampling, not proof.")
LEVEL_NOTE = "Trusted: numpy.einsum; the parity law in sim/models/group.py and the Jordan-Wigner convention in sim/models/jw.py (written from the documentation)."
TECHNIQUE = "seeded sampling of networks/operators with contraction orders, site permutations and application orders enumerated as schedules vs a dense sign/Jordan-Wigner model; cache faults on the swap/ncon metadata tables in the disturbed arm (deterministic simulation)"
RULE = ("one evaluation = one history with 2-6 sign-sensitive ops (swap_check / ncon_orders / fkron_jw). Non-trivial = at least one op in which a sign was actually "
        "negative somewhere (fermionic configuration, odd sectors met) or >= 2 distinct contraction orders were compared; for disturbed runs additionally an effective "
        "disturbance; distinct = SHA-256 of (program, schedule, fired faults).")
REAL_STUB = "real: yastn contractions/einsum/auxiliary and operator classes. stub: LRU container in instrumented-cache runs."
ASSUMPTIONS = ["symmetries carrying parity: Z2, U1, U1xU1, U1xU1xZ2 (plus bosonic controls); per-component fermionic flags multiply"]
CHUNK = 6
WEIGHTS = {"rand": 3, "transpose": 2.5, "fuse": 2, "unfuse": 0.5, "conj": 1, "tensordot": 1.5, "add": 0.7, "swap_check": 5, "ncon_orders": 8, "fkron_jw": 3,
           "swap_gate": 1.5, "pair_unary": 0.3}
PARITY_SYMS = ("Z2", "U1", "U1xU1", "U1xU1xZ2")


def budget(tier):
    return 10000 if tier == "quick" else 80000


def _generating():
    return getattr(core.current_world(), "generating", False)


# ---- swap_gate --------------------------------------------------------------------------------------------------

@e1.register
class OpSwapCheck(e1.Op):
    name = "swap_check"
    shares = True

    def gen(self, g):
        rec = e1.OPS["swap_gate"].gen(g)
        if rec is None:
            return None
        rec["op"] = "swap_check"
        sa = g.sh(rec["in"][0])
        if g.rng.random() < 0.35 and sa.sym.nsym:
            # charge form: swap with a virtual one-dimensional leg of given charge
            legs = sorted(g.rng.sample(range(sa.ndim), g.rng.randint(1, sa.ndim)))
            ch = [g.rng.choice(m and list(range(m)) or [-1, 0, 1, 2]) for m in sa.sym.mods]
            rec["args"] = {"axes": legs, "charge": ch}
        return rec

    def run(self, task, rec, ins):
        a, ar = ins[0], rec["args"]
        if "charge" in ar:
            axes = tuple(ar["axes"])
            y = a.swap_gate(axes=axes, charge=tuple(ar["charge"]))
            z = y.swap_gate(axes=axes, charge=tuple(ar["charge"]))
        else:
            axes = tuple(tuple(x) if isinstance(x, list) else x for x in ar["axes"])
            y = a.swap_gate(axes=axes)
            z = y.swap_gate(axes=axes)
        if not _generating():
            V = core.Violation
            if not task.cfg.fermionic:
                if y is not a:
                    raise V(PROP, "bosonic-identity", "swap_gate under bosonic statistics did not return the same object")
            if z.get_legs() != a.get_legs() or not np.array_equal(z.to_numpy(), a.to_numpy()):
                raise V(PROP, "involution", "swap_gate applied twice (%s) is not exactly the identity" % (ar,))
        return [y]

    def shadow(self, task, rec, sins, outs, ins=None):
        a, ar = sins[0], rec["args"]
        ferm = task.cfgspec.get("fermionic", False)
        if "charge" not in ar:
            return [e1.swap_gate_shadow(a, ar["axes"], ferm)]
        if isinstance(ferm, list):
            ferm = tuple(ferm)
        if not ferm or a.sym.nsym == 0:
            return [a]
        n = a.sym.canon(tuple(ar["charge"]))
        gr = a.groups()
        sgn = np.ones(a.arr.shape)
        nd = a.arr.ndim
        for leg in ar["axes"]:
            for k in gr[leg]:
                u = a.axes[k]
                v = np.array([float(jw.sign(a.sym, ferm, n, t)) for t, d in zip(u.ts, u.Ds) for _ in range(d)])
                shp = [1] * nd
                shp[k] = u.dim
                sgn = sgn * v.reshape(shp)
        if np.any(sgn < 0):
            core.current_world().stats["negative_signs_seen"] += 1
        return [e1.Shadow(a.arr * sgn, a.axes, a.tree, a.n, a.sym, a.isdiag)]


# ---- ncon with swaps, orders as schedules ------------------------------------------------------------------------------

def random_order(inds, rng):
    """One admissible contraction order: repeatedly pick a pair of (already merged) tensors that share
    labels and contract ALL labels between them, one after another (what ncon requires)."""
    owner = {}
    for i, ind in enumerate(inds):
        for v in ind:
            if v > 0:
                owner.setdefault(v, []).append(i)
    group = list(range(len(inds)))
    remaining = sorted(owner)
    order = []
    while remaining:
        v = rng.choice(remaining)
        g1, g2 = group[owner[v][0]], group[owner[v][1]]
        between = [u for u in remaining if {group[owner[u][0]], group[owner[u][1]]} == {g1, g2}]
        rng.shuffle(between)
        order.extend(between)
        remaining = [u for u in remaining if u not in between]
        group = [g1 if g == g2 else g for g in group]
    return order


def admissible_orders(inds, rng, cap=24):
    seen, out = set(), []
    for _ in range(cap * 4):
        o = random_order(inds, rng)
        if tuple(o) not in seen:
            seen.add(tuple(o))
            out.append(o)
        if len(out) >= cap:
            break
    return out


@e1.register
class OpNconOrders(e1.Op):
    name = "ncon_orders"
    creates = True

    def gen(self, g):
        rng, t = g.rng, g.task
        nt = rng.choice([2, 3, 3, 4])
        # random connected network: tensor i has 1-3 legs; bonds between random pairs
        bonds = []
        for i in range(1, nt):
            bonds.append((rng.randrange(i), i))
        for _ in range(rng.randint(0, 2)):
            i, j = sorted(rng.sample(range(nt), 2))
            bonds.append((i, j))
        legs = [[] for _ in range(nt)]      # per tensor: list of (label, spec)
        lab = 1
        bonds.sort()                        # labels joining the same pair of tensors are consecutive (ncon rejects other default orders)
        for i, j in bonds:
            sp = g.leg_spec(full=True)
            legs[i].append((lab, [sp[0], sp[1], None]))
            legs[j].append((lab, [sp[0], 1 - sp[1], None]))
            lab += 1
        nopen = 0
        for i in range(nt):
            for _ in range(rng.randint(0, 2)):
                if len(legs[i]) < 4 and nopen < 4:
                    legs[i].append((-nopen, g.leg_spec(full=True)))
                    nopen += 1
        for l in legs:
            rng.shuffle(l)
        o0 = random_order([[v for v, _ in l] for l in legs], rng)
        ren = {v: k + 1 for k, v in enumerate(o0)}
        legs = [[(ren.get(v, v), sp) for v, sp in l] for l in legs]     # ascending labels = an admissible default order
        labels = sorted({v for l in legs for v, _ in l})
        swaps = []
        for _ in range(rng.randint(0, 3)):
            if len(labels) >= 2:
                swaps.append(sorted(rng.sample(labels, 2)))
        tens = []
        for l in legs:
            specs = [sp for _, sp in l]
            tens.append({"legs": specs, "inds": [v for v, _ in l], "n": g.reachable_n(specs) if rng.random() < 0.8 else list(t.sym.zero()),
                         "lazy": rng.random() < 0.3})
        return {"op": "ncon_orders", "in": [], "args": {"tensors": tens, "swap": swaps, "dtype": "complex128" if rng.random() < 0.2 else "float64",
                                                       "oseed": rng.randrange(1 << 30)}}

    def run(self, task, rec, ins):
        import random
        ar = rec["args"]
        ts, inds = [], []
        for tt in ar["tensors"]:
            lg = [e1._yleg(task, sp) for sp in tt["legs"]]
            x = yastn.rand(task.cfg, legs=lg, n=tuple(tt["n"]) if task.sym.nsym else None, dtype=ar["dtype"])
            if tt["lazy"] and x.ndim >= 2:
                p = list(range(x.ndim))[::-1]
                x = x.transpose(axes=tuple(p)).consume_transpose().transpose(axes=tuple(p))
            ts.append(x)
            inds.append(list(tt["inds"]))
        swap = [tuple(s) for s in ar["swap"]] or None
        w = core.current_world()
        try:
            r0 = yastn.ncon(ts, inds, swap=swap)
        except AssertionError as e:
            if "Sanity check" in str(e):
                # swaps crossing only some of several parallel edges: ncon's swap scheduler gives up with its own
                # sanity assertion (observation, DESIGN section 7); no value to compare
                if w is not None:
                    w.stats["ncon_swap_pattern_unsupported_default_order"] += 1
                return [ts[0]]
            raise
        if _generating():
            return [r0]
        V = core.Violation
        orders = admissible_orders(inds, random.Random(ar["oseed"]))
        # (1) every admissible contraction order gives the same tensor
        for o in orders:
            try:
                r = yastn.ncon(ts, inds, order=o, swap=swap)
            except AssertionError as e:
                if "Sanity check" in str(e):
                    w.stats["ncon_swap_pattern_unsupported_other_order"] += 1
                    w.probes["order_dependent_sanity_assertion"] += 1
                    continue
                raise
            try:
                d = float((r - r0).norm())
            except yastn.YastnError as e:
                raise V(PROP, "order-independence", "ncon with order %s is not comparable with the default order: %s" % (o, str(e)[:100]))
            if d > 1e-10 * max(1.0, float(r0.norm())):
                raise V(PROP, "order-independence", "ncon with swap %s: order %s differs from the default order by %.3e" % (swap, o, d))
        w.stats["contraction_orders_compared"] += len(orders)
        if len(orders) >= 2:
            w.stats["multi_order_networks"] += 1
        # (2) dense model: einsum with one sign matrix per swap pair
        ferm = task.cfgspec.get("fermionic", False)
        if isinstance(ferm, list):
            ferm = tuple(ferm)
        sym = task.sym
        ulegs = {}
        operands = []
        lmap = {}

        def L(v):
            return lmap.setdefault(v, len(lmap))
        for tt, x in zip(ar["tensors"], ts):
            axes = [e1._uleg(task, sp) for sp in tt["legs"]]
            operands.extend([e1.obs_dense(task, x, axes), [L(v) for v in tt["inds"]]])
            for v, u in zip(tt["inds"], axes):
                ulegs.setdefault(v, u)
        negative = False
        if ferm and sym.nsym:
            for a_, b_ in ar["swap"]:
                ua, ub = ulegs[a_], ulegs[b_]
                ta = [t for t, d in zip(ua.ts, ua.Ds) for _ in range(d)]
                tb = [t for t, d in zip(ub.ts, ub.Ds) for _ in range(d)]
                S = np.array([[float(jw.sign(sym, ferm, x_, y_)) for y_ in tb] for x_ in ta])
                negative = negative or bool(np.any(S < 0))
                operands.extend([S, [L(a_), L(b_)]])
        outl = sorted({v for tt in ar["tensors"] for v in tt["inds"] if v <= 0}, reverse=True)
        dense = np.einsum(*operands, [L(v) for v in outl], optimize="greedy")
        if negative:
            w.stats["negative_signs_seen"] += 1
        out_axes = [ulegs[v] for v in outl]
        got = e1.obs_dense(task, r0, out_axes) if out_axes else np.asarray(r0.to_number() if r0.size else 0.0)
        tol = 1e-10 * max(1.0, float(np.max(np.abs(dense))) if dense.size else 1.0)
        if got.shape != np.asarray(dense).shape or not np.allclose(got, dense, rtol=0, atol=tol):
            kind = "bosonic-equals-einsum" if not ferm else ("open-swaps-sign-model" if all(a_ <= 0 and b_ <= 0 for a_, b_ in ar["swap"]) else "general-sign-model")
            raise V(PROP, kind, "ncon with swap %s differs from numpy.einsum with the model's sign matrices by %.3e" % (
                swap, float(np.max(np.abs(got - dense))) if got.shape == np.asarray(dense).shape else -1))
        return [r0]


# ---- fkron vs Jordan-Wigner --------------------------------------------------------------------------------------------------

def operator_family(name, sym):
    import yastn.operators as yo
    if name == "SpinlessFermions":
        ops = yo.SpinlessFermions(sym=sym)
        return ops, {"I": ops.I(), "n": ops.n(), "c": ops.c(), "cp": ops.cp()}
    if name == "SpinfulFermions":
        ops = yo.SpinfulFermions(sym=sym)
        return ops, {"I": ops.I(), "nu": ops.n("u"), "nd": ops.n("d"), "cu": ops.c("u"), "cd": ops.c("d"), "cpu": ops.cp("u"), "cpd": ops.cp("d")}
    if name == "SpinfulFermions_tJ":
        ops = yo.SpinfulFermions_tJ(sym=sym)
        return ops, {"I": ops.I(), "nu": ops.n("u"), "nd": ops.n("d"), "cu": ops.c("u"), "cd": ops.c("d"), "cpu": ops.cp("u"), "cpd": ops.cp("d"), "h": ops.h()}
    if name == "Spin12":
        ops = yo.Spin12(sym=sym)
        return ops, {"I": ops.I(), "z": ops.z(), "sp": ops.sp(), "sm": ops.sm()}
    ops = yo.Spin1(sym=sym)
    return ops, {"I": ops.I(), "sz": ops.sz(), "sp": ops.sp(), "sm": ops.sm()}


FAMILIES = [("SpinlessFermions", "Z2"), ("SpinlessFermions", "U1"), ("SpinfulFermions", "Z2"), ("SpinfulFermions", "U1"), ("SpinfulFermions", "U1xU1"),
            ("SpinfulFermions", "U1xU1xZ2"), ("SpinfulFermions_tJ", "Z2"), ("SpinfulFermions_tJ", "U1"), ("SpinfulFermions_tJ", "U1xU1"),
            ("SpinfulFermions_tJ", "U1xU1xZ2"), ("Spin12", "Z2"), ("Spin12", "U1"), ("Spin12", "dense"), ("Spin1", "U1"), ("Spin1", "Z3"), ("Spin1", "dense")]


def sym_name(cfg):
    sid = getattr(cfg.sym, "SYM_ID", "dense")
    return {"none": "dense", "U(1)": "U1"}.get(sid, sid)


@e1.register
class OpFkronJW(e1.Op):
    name = "fkron_jw"

    def nout(self, rec):
        return 0

    def gen(self, g):
        rng = g.rng
        fam, sym = rng.choice(FAMILIES)
        try:
            _, table = operator_family(fam, sym)
        except yastn.YastnError:
            return None
        k = rng.choice([2, 2, 3])
        names = [rng.choice(sorted(table)) for _ in range(k)]
        sites = list(range(k))
        rng.shuffle(sites)
        ao = None
        if rng.random() < 0.5:
            ao = list(range(k))
            rng.shuffle(ao)
        return {"op": "fkron_jw", "in": [], "args": {"family": fam, "sym": sym, "ops": names, "sites": sites, "application_order": ao}}

    def run(self, task, rec, ins):
        ar = rec["args"]
        ops, table = operator_family(ar["family"], ar["sym"])
        cfg = ops.config
        sym = Sym(sym_name(cfg))
        ferm = cfg.fermionic
        space = ops.space()
        sp = jw.SiteSpace.from_leg(sym, space)
        k = len(ar["ops"])
        tens = [table[nm] for nm in ar["ops"]]
        kw = {"sites": tuple(ar["sites"])}
        if ar["application_order"] is not None:
            kw["application_order"] = tuple(ar["application_order"])
        res = yastn.fkron(*tens, **kw)
        if _generating():
            return []
        V = core.Violation
        lg = {i: (space if i % 2 == 0 else space.conj()) for i in range(2 * k)}
        got = jw.dense_from_legs_pairs(res.to_numpy(legs=lg), k)
        dense1 = {nm: table[nm].to_numpy(legs={0: space, 1: space.conj()}) for nm in set(ar["ops"])}
        ao = ar["application_order"] if ar["application_order"] is not None else list(range(k))[::-1]
        # written product, left to right = reversed application order (application_order[0] acts first)
        terms = [(ar["sites"][i], dense1[ar["ops"][i]], tuple(tens[i].n)) for i in ao[::-1]]
        ref = jw.product([sp] * k, ferm, terms)
        if got.shape != ref.shape or not np.allclose(got, ref, atol=1e-12):
            raise V(PROP, "fkron-jordan-wigner", "fkron(%s, sites=%s, application_order=%s) of %s/%s differs from the Jordan-Wigner product by %.3e"
                    % (ar["ops"], ar["sites"], ar["application_order"], ar["family"], ar["sym"], float(np.max(np.abs(got - ref))) if got.shape == ref.shape else -1))
        w = core.current_world()
        if any(any(x % 2 for x in t.n) for t in tens) and ferm:
            w.stats["negative_signs_seen"] += 1
        # canonical anticommutation relations from fkron-built single-operator embeddings (fermionic families)
        if ar["family"] != "Spin12" and ar["family"] != "Spin1" and k == 2:
            cs = [nm for nm in table if nm.startswith("c") and not nm.startswith("cp")]
            for a_ in cs:
                for b_ in cs:
                    for i in range(2):
                        for j in range(2):
                            A = self._embed(table[a_], table["I"], i, space, yastn)
                            Bd = self._embed(table["cp" + b_[1:]], table["I"], j, space, yastn)
                            anti = A @ Bd + Bd @ A
                            same_species = a_ == b_
                            # documented: with U1xU1 the two species sit in different fermionic charge components and are
                            # distinguishable (their operators commute); Z2, U1, U1xU1xZ2 have one fermionic component
                            distinguishable = ar["sym"] == "U1xU1" and a_ != b_
                            if ar["family"] == "SpinfulFermions_tJ":
                                continue    # projected operators: no canonical relations
                            if distinguishable:
                                comm = A @ Bd - Bd @ A
                                if not np.allclose(comm, 0, atol=1e-12):
                                    raise V(PROP, "fkron-commutation", "%s/%s: distinguishable species %s_%d, %s^+_%d do not commute" % (ar["family"], ar["sym"], a_, i, b_, j))
                                continue
                            expect = np.eye(anti.shape[0]) if (same_species and i == j) else np.zeros_like(anti)
                            if not np.allclose(anti, expect, atol=1e-12):
                                raise V(PROP, "fkron-CAR", "%s/%s: {%s_%d, %s^+_%d} != %s" % (ar["family"], ar["sym"], a_, i, b_, j, "1" if (same_species and i == j) else "0"))
        return []

    @staticmethod
    def _embed(op, ident, site, space, yastn_):
        ops2 = [ident, ident]
        ops2[site] = op
        r = yastn_.fkron(*ops2, sites=(0, 1))
        lg = {i: (space if i % 2 == 0 else space.conj()) for i in range(4)}
        return jw.dense_from_legs_pairs(r.to_numpy(legs=lg), 2)


def after_op(w, task, rec, outs):
    for q, s in enumerate(rec["out"]):
        what = "op %d %s %s output %d" % (rec["id"], rec["op"], {k: v for k, v in rec["args"].items() if k in ("axes", "charge")}, q)
        try:
            e1.compare(task, task.slots[s], task.shadows.get(s), PROP, what)
        except core.Violation as v:
            if rec["op"] in ("swap_check", "swap_gate"):
                v.oracle = "swap-gate-sign-model:" + v.oracle
            v.where.update({"op": rec["op"]})
            raise
        if rec["op"] in ("swap_check", "swap_gate") and task.cfg.fermionic:
            sh_in, sh_out = task.shadows.get(rec["in"][0]), task.shadows.get(s)
            if sh_in is not None and sh_out is not None and not np.array_equal(sh_in.arr, sh_out.arr):
                w.stats["negative_signs_seen"] += 1


def on_exception(w, task, rec, exc):
    if rec["op"] in ("swap_check", "ncon_orders", "fkron_jw", "swap_gate"):
        raise core.Violation(PROP, "exception-where-result-promised", "op %d %s %s raised %s: %s" % (rec["id"], rec["op"], rec["args"], type(exc).__name__, str(exc)[:150]), op=rec["op"])


def run_seed(seed, tier):
    # multi-component symmetries are over-sampled: per-component statistics is where sum-of-charges shortcuts go wrong
    syms = ["Z2", "U1"] * 2 + ["U1xU1", "U1xU1xZ2"] * 4 + ["dense", "Z3"]
    case = e1prop.build(seed, tier, PROP, WEIGHTS, nops=(6, 12), syms=syms, p_disturbed=0.5)
    v, w, info = e1prop.simulate(case, True, after_op, on_exception)
    r = e1prop.result(case, v, w, info, seed)
    sign_content = w.stats.get("negative_signs_seen", 0) > 0 or w.stats.get("multi_order_networks", 0) > 0
    r["nontrivial"] = bool(sign_content and (case["arm"] == "baseline" or r["disturbed_effective"]))
    return r


def replay(case):
    v, _, _ = e1prop.simulate(_copy.deepcopy(case), False, after_op, on_exception)
    return v


extra_evidence = e1prop.extra_evidence
