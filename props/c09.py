"""C09 — DMRG is variational and self-consistent.

dmrg_(..., iterator=True) is a worker task: one scheduler step = one sweep.  Between sweeps run
observers (measurements and copies of psi), fault events (cache clear/resize/evict at every
lookup — also inside the Krylov callback Heff —, LAPACK primary-driver failures in the 2site
SVDs), yastn.Method switches (1site <-> 2site) and cancellation (the generator is abandoned after
any yield).  Oracles at every yield: psi normalised, canonical to first, in the charge sector of
the initial state; reported energy = <psi|H|psi> of the CURRENT dense state >= lowest eigenvalue
of the dense Jordan-Wigner H in the sector; energy non-increasing while no truncation binds; a run
converged at maximal bond dimension ends in an eigenstate; with projection penalties the result
is orthogonal to the listed state and not below the next level; H as a single MPO, as a sum of
MPOs with unequal factors, with and without precompute.
"""
import copy as _copy

from sim import core, e1, e1prop, e2, e2prop, e2w  # noqa: F401

PROP = "C09"
ENGINE = "E2"
LEVEL = "exploration"
LEVEL_TEXT = ("Seeded simulated runs of the dmrg_ generator stepped sweep by sweep with interleaved observers, Method switches, cancellation, cache faults at every metadata lookup "
              "(incl. inside Krylov callbacks) and LAPACK failures; dense Jordan-Wigner Hamiltonian restricted to the charge sector as the oracle at every yield. Sampling, not proof.")
LEVEL_NOTE = "Trusted: NumPy eigvalsh on the dense H in the sector; sim/models/jw.py; the C07 check ties generate_mpo to the same dense model."
TECHNIQUE = "deterministic simulation: the dmrg_ generator stepped by a seeded scheduler with observers, Method switches, cancellation, cache faults at every lookup and LAPACK failures; dense-H oracles at every yield"
RULE = ("one evaluation = one world with 1-2 dmrg_ workers stepped 2-8 sweeps with interleaved observer ops. Non-trivial = at least 2 sweeps checked against the dense H and at least one of: "
        "Method switched between yields, observer ran between sweeps, worker cancelled, fault effective (cache refill / LAPACK fallback); distinct = SHA-256 of (program, schedule, fired faults).")
REAL_STUB = "real: yastn.tn.mps._dmrg/_env, krylov, linalg, backend. stub: LRU container in instrumented runs; injected LAPACK primary-driver failure."
ASSUMPTIONS = ["chain lengths 2-8 (d=2), 2-5 (d=3), 2-4 (d=4)", "eigenstate / penalty assertions only after the energy has stalled for 2-3 sweeps at relative 1e-12 / 1e-10"]
CHUNK = 2
WALL_CAP = 600
WEIGHTS = {"m_dmrg_start": 1.0, "m_dmrg_step": 18, "m_measure": 3, "m_unary": 1.5, "m_spectrum": 1, "m_random_mps": 0.3}


def budget(tier):
    return 400 if tier == "quick" else 6000


def after_op(w, task, rec, outs):
    if rec["op"] in ("m_measure", "m_unary", "m_spectrum") and any(isinstance(v, e2w.Worker) and not v.done and v.steps > 0 for v in task.slots.values()):
        w.stats["observer_between_sweeps"] += 1
    for q, s in enumerate(rec["out"]):
        if rec["op"] == "m_measure":
            e2.compare_dense(task, task.slots[s], task.shadows.get(s), PROP, "observer op %d %s" % (rec["id"], rec["args"]), tol=1e-9)


def on_exception(w, task, rec, exc):
    if rec["op"] in ("m_random_mps", "m_random_mpo") or "zero state" in str(exc):
        return
    if e2.known_meta_product(task, rec, exc):
        return
    import numpy as np
    if isinstance(exc, np.linalg.LinAlgError) and "injected" in str(exc):
        return
    raise core.Violation(PROP, "exception-where-result-promised", "op %d %s raised %s: %s" % (rec["id"], rec["op"], type(exc).__name__, str(exc)[:200]), op=rec["op"])


def run_seed(seed, tier):
    case = e2prop.build(seed, tier, PROP, WEIGHTS, nops=(6, 14), seed_ops=("m_dmrg_start",), Nmax=8, Nmin=2, families=["SpinlessFermions", "SpinlessFermions", "Spin12", "Spin12", "Spin1", "SpinfulFermions"])
    v, w, info = e1prop.simulate(case, True, after_op, on_exception)
    info["checked_outputs"] = w.stats.get("dmrg_sweeps_checked", 0) * 2
    r = e1prop.result(case, v, w, info, seed, sample_every=60)
    sched = w.stats.get("fault_method_switch", 0) + w.stats.get("observer_between_sweeps", 0)
    r["nontrivial"] = bool(w.stats.get("dmrg_sweeps_checked", 0) >= 2 and (sched > 0 or r["disturbed_effective"]))
    return r


def replay(case):
    v, _, _ = e1prop.simulate(_copy.deepcopy(case), False, after_op, on_exception)
    return v


extra_evidence = e1prop.extra_evidence
