"""C14 — results do not depend on contraction policy, fusion mode or lazy state.

One program is executed as several *executions* (tasks) of the same op list: a reference
configuration (fuse_to_matrix, hard fusion, everything materialised after every op) and
disturbed executions that differ only in performance knobs: tensordot_policy, default_fusion /
force_fusion, and buggify events inserted at arbitrary points (consume_transpose, copy,
fuse_meta_to_hard, re-lazying an operand).  Separately, contract_with_unroll is run for random
admissible pairwise paths, optimizers and unroll/slicing specifications against the plain
contraction.  Oracle: differential on exactly the observables the property names — legs,
total charge, dense values.
"""
import copy as _copy

import numpy as np

from sim import core, e1, e1run
from sim.core import yastn

from yastn.tensor.oe_blocksparse import contract_with_unroll_compute_constants as _cc

PROP = "C14"
ENGINE = "E1"
LEVEL = "exploration"
COUPLED_TASKS = True
TECHNIQUE = "deterministic simulation, swarm/buggify style: the same seeded program under knob schedules (policy x fusion mode x forced mode) with consume_transpose/copy/fuse_meta_to_hard/re-lazy events injected at arbitrary op boundaries, plus cache faults; differential oracle vs a reference execution"
RULE = ("one evaluation = one program (8-16 ops) executed under a reference configuration and 3 disturbed configurations. Non-trivial = "
        "some disturbed execution really took a different path: a tensordot/ncon ran under a different policy, a fuse ran under a different "
        "mode, or an injected event changed the lazy/meta state of a slot that a later op consumed; distinct = SHA-256 of (program, "
        "configurations, injected events).")
REAL_STUB = "real: all yastn code incl. the three tensordot kernels, both fusion modes, oe_blocksparse driver, opt_einsum. stub: none (instrumented LRU container in runs with cache faults)."
ASSUMPTIONS = ["where the fusion MODE differs between executions, fused legs are different representations by design: comparison is made after complete unfusing",
               "factorisations enter programs only through gauge-free recombinations (U S V, Q R, U S U^dagger)",
               "get_blocks_charge/get_blocks_shape/'in' expose native storage order by documentation and are not compared"]
WALL_CAP = 1200
CHUNK = 8

WEIGHTS = dict(e1.DEFAULT_WEIGHTS)
WEIGHTS.update({"svd": 0, "tensordot": 7, "ncon": 3, "fuse": 4, "fuse_pair": 2.5, "unfuse": 2.5, "transpose": 4, "add": 3, "trace": 3,
                "factor_recombine": 2, "eigh_gram": 1, "diag": 1.5, "observe": 0, "unroll_net": 1.2, "norm": 1, "copy": 0.5,
                "drop_history": 0})     # drop_leg_history acts on the hard-fusion record only: its result legitimately depends on the fusion mode


def budget(tier):
    return 2500 if tier == "quick" else 25000


# ---- contract_with_unroll ---------------------------------------------------------------------------------

@e1.register
class OpUnrollNet(e1.Op):
    """Self-contained differential: a small chain network contracted plainly (reference) and with
    random admissible paths / optimizers / unroll specs; all results must coincide."""
    name = "unroll_net"
    creates = True

    def gen(self, g):
        rng, t = g.rng, g.task
        nt = rng.choice([2, 2, 3, 3, 4])
        bonds = [rng.randrange(len(t.universe)) for _ in range(nt + 1)]
        tens = []
        for k in range(nt):
            legs = [[bonds[k], 0, None], [bonds[k + 1], 1, None]]
            labels = ["b%d" % k, "b%d" % (k + 1)]
            if rng.random() < 0.5:
                legs.append([rng.randrange(len(t.universe)), rng.randint(0, 1), None])
                labels.append("x%d" % k)
            p = list(range(len(legs)))
            rng.shuffle(p)
            tens.append({"legs": [legs[i] for i in p], "labels": [labels[i] for i in p], "n": g.reachable_n([legs[i] for i in p])})
        out = ["b0", "b%d" % nt] + [l for tt in tens for l in tt["labels"] if l.startswith("x")]
        rng.shuffle(out)
        variants = []
        for _ in range(rng.randint(2, 4)):
            # random admissible pairwise path over a chain: contract neighbours in the current list
            path, cur = [], list(range(nt))
            while len(cur) > 1:
                i = rng.randrange(len(cur) - 1)
                path.append([i, i + 1])
                a_, b_ = cur[i], cur[i + 1]
                cur = [c for q, c in enumerate(cur) if q not in (i, i + 1)] + [(a_, b_)]
                # opt_einsum convention: result is appended at the end -> chain adjacency must be tracked
                break
            unroll = {}
            labs = sorted({l for tt in tens for l in tt["labels"]})
            for lab in rng.sample(labs, rng.randint(1, min(2, len(labs)))):
                # the path finder cannot handle an operand ALL of whose indices are unrolled
                # (IndexError inside opt_einsum's parser; observation in DESIGN section 7): keep one
                if any(all(l in unroll or l == lab for l in tt["labels"]) for tt in tens):
                    continue
                kind = rng.choice(["int", "sectors", "uniform", "handmade"])
                unroll[lab] = [kind, rng.randint(1, 3)]
            if not unroll:
                continue
            variants.append({"optimize": rng.choice(["auto", "greedy", "optimal", "path"]), "unroll": unroll,
                             "cc": rng.random() < 0.3, "pseed": rng.randrange(1 << 30)})
        return {"op": "unroll_net", "in": [], "args": {"tensors": tens, "out": out, "variants": variants,
                                                      "dtype": "complex128" if rng.random() < 0.2 else "float64"}}

    def run(self, task, rec, ins):
        import random
        ar = rec["args"]
        ts = []
        for tt in ar["tensors"]:
            legs = [e1._yleg(task, sp) for sp in tt["legs"]]
            ts.append(yastn.rand(task.cfg, legs=legs, n=tuple(tt["n"]) if task.sym.nsym else None, dtype=ar["dtype"]))
        if any(x.size == 0 for x in ts):
            raise yastn.YastnError("unroll_net: empty operand (the path finder models shapes from stored blocks)")
        args = []
        for x, tt in zip(ts, ar["tensors"]):
            args.extend([x, tuple(tt["labels"])])
        args.append(tuple(ar["out"]))
        path0, _ = yastn.get_contraction_path(*args)
        ref = yastn.contract_with_unroll(*args, optimize=path0)
        w = core.current_world()
        generating = getattr(w, "generating", False)
        for vi, var in enumerate(ar["variants"]):
            unroll = {}
            for lab, (kind, size) in var["unroll"].items():
                leg = None
                for x, tt in zip(ts, ar["tensors"]):
                    if lab in tt["labels"]:
                        leg = x.get_legs(tt["labels"].index(lab))
                        break
                if kind == "int":
                    unroll[lab] = size
                elif kind == "sectors":
                    unroll[lab] = yastn.make_sliced_legs(leg)
                elif kind == "uniform":
                    from yastn.tensor.oe_blocksparse import slice_leg_uniform
                    unroll[lab] = slice_leg_uniform(leg, size)
                else:
                    # hand-made partition: each sector split at a seeded cut
                    r = random.Random(var["pseed"])
                    parts = []
                    for tch, D in zip(leg.t, leg.D):
                        c = r.randint(0, D)
                        if 0 < c < D:
                            parts.append(yastn.SlicedLeg(t=[tch], D=[c], slices={tuple(tch): slice(0, c)}))
                            parts.append(yastn.SlicedLeg(t=[tch], D=[D - c], slices={tuple(tch): slice(c, D)}))
                        else:
                            parts.append(yastn.SlicedLeg(t=[tch], D=[D]))
                    r.shuffle(parts)
                    unroll[lab] = parts
            if var["optimize"] == "path":
                # random admissible path: pairs of tensors sharing a label, in opt_einsum's shrinking-list convention
                r = random.Random(var["pseed"] + 1)
                cur = [set(tt["labels"]) for tt in ar["tensors"]]
                path = []
                while len(cur) > 1:
                    pairs = [(i, j) for i in range(len(cur)) for j in range(i + 1, len(cur)) if cur[i] & cur[j]]
                    i, j = r.choice(pairs)
                    path.append((i, j))
                    new = cur[i] ^ cur[j]
                    cur = [c for q, c in enumerate(cur) if q not in (i, j)] + [new]
            else:
                try:
                    path, _ = yastn.get_contraction_path(*args, unroll={k: (list(v) if isinstance(v, list) else v) for k, v in unroll.items()},
                                                         optimizer=None if var["optimize"] == "auto" else var["optimize"])
                except (ValueError, IndexError, AssertionError):
                    if w is not None:
                        w.stats["unroll_spec_not_accepted"] += 1
                    continue
            f = _cc if var["cc"] else yastn.contract_with_unroll
            try:
                res = f(*args, unroll=unroll, optimize=path)
            except (ValueError, IndexError, AssertionError):
                # the shape-model path finder (used inside the compute-constants variant) does not accept
                # networks with an empty intermediate: specification not accepted, nothing to compare
                if w is not None:
                    w.stats["unroll_spec_not_accepted"] += 1
                continue
            except yastn.YastnError as e:
                if generating:
                    continue
                raise core.Violation(PROP, "unroll-exception", "contract_with_unroll variant %d (%s) raised %s where the plain contraction returned a result"
                                     % (vi, var, str(e)[:100]))
            if not generating:
                diff_tensors(ref, res, "contract_with_unroll variant %d (%s) vs plain contraction" % (vi, var), same_fusion=True, oracle="unroll")
            if w is not None:
                w.stats["unroll_variants"] += 1
        return [ref]


# ---- differential comparison -------------------------------------------------------------------------------

def legs_desc(x):
    out = []
    for l in x.get_legs():
        out.append((l.s, tuple(l.t), tuple(l.D), l.history() if hasattr(l, "history") else ""))
    return out


def diff_tensors(a, b, what, same_fusion, oracle="diff"):
    V = core.Violation
    if isinstance(a, yastn.Tensor) != isinstance(b, yastn.Tensor):
        raise V(PROP, oracle + "-type", "%s: %r vs %r" % (what, type(a), type(b)))
    if not isinstance(a, yastn.Tensor):
        tol = 1e-10 * max(1.0, abs(a), abs(b))
        if abs(complex(a) - complex(b)) > tol:
            raise V(PROP, oracle + "-value", "%s: numbers differ: %r vs %r" % (what, a, b))
        return
    if tuple(a.n) != tuple(b.n):
        raise V(PROP, oracle + "-charge", "%s: total charge %s vs %s" % (what, a.n, b.n))
    if bool(a.isdiag) != bool(b.isdiag):
        raise V(PROP, oracle + "-legs", "%s: isdiag %s vs %s" % (what, a.isdiag, b.isdiag))
    if a.ndim != b.ndim and same_fusion:
        raise V(PROP, oracle + "-legs", "%s: rank %d vs %d" % (what, a.ndim, b.ndim))
    if same_fusion:
        la, lb = legs_desc(a), legs_desc(b)
        if [x[0] for x in la] != [x[0] for x in lb]:
            raise V(PROP, oracle + "-legs", "%s: signatures %s vs %s" % (what, [x[0] for x in la], [x[0] for x in lb]))
        if [x[3] for x in la] != [x[3] for x in lb]:
            raise V(PROP, oracle + "-legs", "%s: fusion histories %s vs %s" % (what, [x[3] for x in la], [x[3] for x in lb]))
    # values and sector content are compared on the elementary legs (complete unfusing)
    a, b = e1.unfuse_all(a), e1.unfuse_all(b)
    if a.ndim != b.ndim:
        raise V(PROP, oracle + "-legs", "%s: rank after unfusing %d vs %d" % (what, a.ndim, b.ndim))
    if tuple(a.s) != tuple(b.s):
        raise V(PROP, oracle + "-legs", "%s: signatures %s vs %s" % (what, a.s, b.s))
    if a.size == 0 or b.size == 0:
        # no stored block on one side: the other side may only store zeros
        o = b if a.size == 0 else a
        if o.size and float(o.norm()) > 1e-10:
            raise V(PROP, oracle + "-value", "%s: one result is empty, the other has norm %.3e" % (what, float(o.norm())))
        return
    if a.isdiag:
        try:
            l0 = yastn.legs_union(a.get_legs(0), b.get_legs(0))
            da, db = a.to_numpy(legs={0: l0}), b.to_numpy(legs={0: l0})
        except yastn.YastnError as e:
            raise V(PROP, oracle + "-legs", "%s: diagonal legs not compatible: %s" % (what, e))
    else:
        # dense values over the union of the sectors either side stores (explicit zero blocks are not observable values)
        try:
            lu = {i: yastn.legs_union(x, y) for i, (x, y) in enumerate(zip(a.get_legs(), b.get_legs()))}
        except yastn.YastnError as e:
            raise V(PROP, oracle + "-legs", "%s: legs are not compatible: %s" % (what, e))
        da, db = a.to_numpy(legs=lu), b.to_numpy(legs=lu)
    if da.shape != db.shape:
        raise V(PROP, oracle + "-legs", "%s: dense shapes %s vs %s" % (what, da.shape, db.shape))
    tol = 1e-10 * max(1.0, float(np.max(np.abs(da))) if da.size else 1.0)
    if da.size and not np.allclose(da, db, rtol=0, atol=tol):
        raise V(PROP, oracle + "-value", "%s: dense values differ by %.3e" % (what, float(np.max(np.abs(da - db)))))


# ---- build / simulate -----------------------------------------------------------------------------------------------

REF = {"tensordot_policy": "fuse_to_matrix", "default_fusion": "hard", "force_fusion": None}


def build(seed, tier):
    rng = core.stream(seed, "programs")
    swarm = core.stream(seed, "swarm")
    from sim.models.group import SYM_NAMES
    sym = rng.choice(SYM_NAMES)
    base = {"sym": sym, "fermionic": rng.choice(e1run.fermionic_choices(sym))}
    fusion_run = swarm.random() < 0.5     # executions may differ in fusion mode: fuse ops use mode=None only
    cfg0 = dict(base)
    cfg0.update(REF)
    spec = {"id": 0, "config": cfg0, "universe": [u.to_json() for u in e1.gen_universe(sym, rng)], "tags": {}}
    wts = dict(WEIGHTS)
    for k in list(wts):
        if k not in ("tensordot",) and swarm.random() < 0.2:
            wts[k] = 0
    nops = swarm.randint(8, 16)
    if fusion_run:
        _force_mode_none(True)
    try:
        prog, digs, t = e1run.generate_cold(seed, spec, rng, nops, wts, seed_ops=("rand",))
    finally:
        _force_mode_none(False)
    tasks = []
    ts0 = dict(spec)
    ts0["program"] = prog
    ts0["role"] = "reference"
    tasks.append(ts0)
    sched = [["fault", "materialise_all", 0] if False else ["op", 0, r["id"]] for r in prog]
    vrng = core.stream(seed, "variants")
    for vid in (1, 2, 3):
        cfg = dict(base)
        cfg["tensordot_policy"] = vrng.choice(e1run.POLICIES)
        if fusion_run:
            cfg["default_fusion"] = vrng.choice(["hard", "meta"])
            cfg["force_fusion"] = vrng.choice([None, None, "hard", "meta"])
        else:
            cfg["default_fusion"] = "hard"
            cfg["force_fusion"] = None
        tsv = {"id": vid, "config": cfg, "universe": spec["universe"], "tags": {}, "program": _copy.deepcopy(prog), "role": "disturbed"}
        tasks.append(tsv)
        p_f5 = vrng.choice([0.0, 0.2, 0.4])
        for r in prog:
            sched.append(["op", vid, r["id"]])
            if p_f5 and r["out"] and vrng.random() < p_f5:
                kinds = ["consume_transpose", "copy", "relazy", "relazy"]
                # (fuse_meta_to_hard is not injected: the library rejects mixing hard- and meta-fused operands by design)
                sched.append(["fault", "f5", vid, vrng.choice(r["out"]), vrng.choice(kinds), vrng.randrange(1 << 30)])
    world = {"cache_impl": "real", "maxsize": "default", "lapack": False, "fc": {}}
    if swarm.random() < 0.4:
        world = {"cache_impl": "instrumented", "maxsize": swarm.choice(["default", 0, 1, 3]), "lapack": False,
                 "fc": {"p_lookup": swarm.choice([0.02, 0.1]), "lookup_kinds": ["evict", "clear_table", "clear_all", "resize"]}}
    return {"format": 1, "property": PROP, "engine": ENGINE, "arm": "fusion-run" if fusion_run else "policy-lazy-run", "seed": seed,
            "world": world, "tasks": tasks, "schedule": sched, "inner": {}, "mode": "draw", "fusion_run": fusion_run}


_FUSE_GEN = e1.OpFuse.gen


def _force_mode_none(on):
    if on:
        def gen(self, g, a=None, axes=None, mode="draw"):
            return _FUSE_GEN(self, g, a=a, axes=axes, mode=None)
        e1.OpFuse.gen = gen
    else:
        e1.OpFuse.gen = _FUSE_GEN


def apply_f5(task, slot, kind, vseed):
    """Observationally neutral rewrites of a live slot.  Returns True if the lazy/meta state changed."""
    x = task.slots.get(slot)
    if not isinstance(x, yastn.Tensor):
        return False
    before = (tuple(x.trans), tuple(x.mfs), tuple(h.tree for h in x.hfs))
    if kind == "consume_transpose":
        y = x.consume_transpose()
    elif kind == "copy":
        y = x.copy()
    elif kind == "meta_to_hard":
        y = x.fuse_meta_to_hard()
    else:  # relazy: an equal tensor holding a pending permutation
        if x.ndim < 2:
            return False
        import random
        r = random.Random(vseed)
        p = list(range(x.ndim))
        r.shuffle(p)
        inv = [p.index(i) for i in range(x.ndim)]
        y = x.transpose(axes=tuple(p)).consume_transpose().transpose(axes=tuple(inv))
    task.slots[slot] = y
    after = (tuple(y.trans), tuple(y.mfs), tuple(h.tree for h in y.hfs))
    return before != after


def simulate(case, draw):
    wcfg = case["world"]
    kw = dict(cache_impl=wcfg["cache_impl"], maxsize=wcfg["maxsize"], lapack=False)
    w = core.World(case["seed"], fc=wcfg.get("fc", {}), **kw) if draw else core.World(case["seed"], plan=case.get("inner", {}), **kw)
    tasks, progs, results = {}, {}, {}
    info = {"f5_effective": 0, "f5": 0, "path_differs": 0, "compared": 0}
    changed_slots = {}
    try:
        for ts in case["tasks"]:
            tasks[ts["id"]] = e1.task_from_spec(ts)
            tasks[ts["id"]].data_key = 0      # all executions see the same data
            progs[ts["id"]] = {r["id"]: r for r in ts["program"]}
        refcfg = case["tasks"][0]["config"]
        for ev in case["schedule"]:
            if ev[0] == "fault":
                _, _, tid, slot, kind, vseed = ev
                if tid in tasks and slot in tasks[tid].slots:
                    w.begin_op(tid, "f%d" % slot)
                    info["f5"] += 1
                    if apply_f5(tasks[tid], slot, kind, vseed):
                        changed_slots.setdefault(tid, set()).add(slot)
                continue
            _, tid, uid = ev
            if tid not in tasks or uid not in progs[tid]:
                continue
            task, rec = tasks[tid], progs[tid][uid]
            if not all(s in task.slots for s in rec["in"]):
                continue
            w.begin_op(tid, uid)
            w.stats["ops"] += 1
            w.stats["events"] += 1
            try:
                outs, _ = e1.execute(task, rec, w, shadow=False)
                res = outs
            except core.Violation:
                raise
            except Exception as e:  # noqa: BLE001
                res = e
            if tid == 0:
                # reference: materialise every result (no pending permutation survives an op)
                if not isinstance(res, Exception):
                    for s in rec["out"]:
                        if isinstance(task.slots[s], yastn.Tensor):
                            task.slots[s] = task.slots[s].consume_transpose()
                    res = [task.slots[s] for s in rec["out"]]
                results[uid] = res
                continue
            ref = results.get(uid)
            if ref is None:
                continue
            cfg = case["tasks"][[t["id"] for t in case["tasks"]].index(tid)]["config"]
            if rec["op"] in ("tensordot", "ncon", "factor_recombine", "eigh_gram", "unroll_net") and cfg["tensordot_policy"] != refcfg["tensordot_policy"]:
                info["path_differs"] += 1
            if rec["op"] in ("fuse", "fuse_pair") and e1.eff_mode(task, rec["args"].get("mode")) != "hard":
                info["path_differs"] += 1
            if any(s in changed_slots.get(tid, ()) for s in rec["in"]):
                info["f5_effective"] += 1
            if isinstance(ref, Exception) or isinstance(res, Exception):
                if (isinstance(res, yastn.YastnError) and not isinstance(ref, Exception) and "fused legs" in str(res)
                        and cfg.get("default_fusion") != refcfg.get("default_fusion")
                        and len({r2["args"].get("mode") for r2 in progs[tid].values() if r2["op"] == "fuse"}) > 1):
                    # the program itself mixes explicitly moded fusions with default-mode ones: under another default the operands end up meta- vs
                    # hard-fused, which the library rejects by design (not a dependence of a result on the knob)
                    info["mode_mixing_rejected"] = info.get("mode_mixing_rejected", 0) + 1
                    continue
                if type(ref) is not type(res):
                    raise core.Violation(PROP, "diff-exception", "task %d (%s) op %d %s: reference %s, disturbed %s" % (
                        tid, cfg, uid, rec["op"], _short(ref), _short(res)), op=rec["op"], uid=uid)
                continue
            same_fusion = not case.get("fusion_run")
            for q, (x, y) in enumerate(zip(ref, res)):
                info["compared"] += 1
                try:
                    diff_tensors(x, y, "op %d %s output %d under %s vs reference" % (uid, rec["op"], q,
                                 {k: cfg[k] for k in ("tensordot_policy", "default_fusion", "force_fusion")}), same_fusion)
                except core.Violation as v:
                    v.where.update({"op": rec["op"], "uid": uid})
                    raise
            v = w.take_violation()
            if v is not None and v.prop == PROP:
                raise v
        w.close()
        return None, w, info
    except core.Violation as v:
        try:
            w.close()
        except Exception:
            pass
        return v.as_dict(), w, info


def _short(x):
    if isinstance(x, Exception):
        return "%s(%s)" % (type(x).__name__, str(x)[:80])
    return "a result"


def run_seed(seed, tier):
    case = build(seed, tier)
    v, w, info = simulate(case, draw=True)
    case["inner"] = dict(w.inner_fired)
    case["mode"] = "plan"
    st = dict(w.stats)
    st.update(info)
    st["fault_f5_buggify"] = info["f5"]
    st["effective_f5_state_change_consumed"] = info["f5_effective"]
    st["effective_different_kernel_or_mode"] = info["path_differs"]
    nontrivial = info["path_differs"] > 0 or info["f5_effective"] > 0
    return {"violation": v, "case": case if v else None, "stats": st, "probes": dict(w.probes),
            "digest": e1run.schedule_digest(case), "nontrivial": bool(nontrivial), "arm": case["arm"],
            "sample": e1run.brief_case(case, maxops=6) if seed % 400 == 0 else None}


def replay(case):
    v, _, _ = simulate(_copy.deepcopy(case), draw=False)
    return v
