"""C10 — TDVP conserves what it must and is exact on the full manifold.

tdvp_ is a worker task: one scheduler step = one snapshot, the SIMULATED PHYSICAL CLOCK is the
time grid; time-dependent generators are given as a recording callback H(t) (log of queried
times).  Oracles per snapshot: TDVP_out bookkeeping (tf = requested snapshot, steps*dt = tf-ti,
dt <= requested, number of generator queries = steps (2nd) / 5*steps (4th), all inside [ti, tf]);
real time + time-independent Hermitian H: norm and energy conserved, charge sector and canonical
form kept; maximal bond dimension (initial state from a dense random vector of the sector through
mps_from_tensor): dense state = expm(-u t H) psi0 for real, imaginary and complex u, 2nd and 4th
order; time-dependent H: accuracy vs a fine-grid product of dense exponentials and convergence order.
History relations of the worker (state carried across steps: env reuse, expmv_ncv, dt adjustment):
same evolution cut into different snapshot grids agrees; dt adjusted internally == dt given adjusted.
Faults: cache clear/resize/evict at every lookup (also inside Krylov callbacks), LAPACK failures
(2site/12site SVDs), cancellation, observers between snapshots.
"""
import copy as _copy

from sim import core, e1, e1prop, e2, e2prop, e2w  # noqa: F401

PROP = "C10"
ENGINE = "E2"
LEVEL = "exploration"
LEVEL_TEXT = ("Seeded simulated runs of the tdvp_ generator on a simulated physical clock (time grid, recording H(t) callback), stepped snapshot by snapshot with observers, "
              "cache faults at every lookup and LAPACK failures; dense expm reference at every snapshot; history relations across snapshot grids and step-size adjustment. Sampling, not proof.")
LEVEL_NOTE = "Trusted: scipy.linalg.expm on the dense Jordan-Wigner H; fine-grid midpoint product (400-800 exponentials) as the reference for time-dependent generators."
TECHNIQUE = "deterministic simulation: tdvp_ stepped on a simulated physical clock with a recording H(t) callback, observers, cache/LAPACK faults; dense expm oracle per snapshot and history relations of the worker"
RULE = ("one evaluation = one world with a tdvp_ worker stepped over 1-3 snapshots plus self-contained relation runs. Non-trivial = at least one snapshot at maximal bond dimension compared "
        "with expm (or a relation / order measurement checked) and at least one of: several snapshots, observer between snapshots, effective fault; distinct = SHA-256 of (program, schedule, fired faults).")
REAL_STUB = "real: yastn.tn.mps._tdvp/_env, krylov expmv, linalg. stub: LRU container in instrumented runs; injected LAPACK primary-driver failure."
ASSUMPTIONS = ["chain lengths 2-6", "exactness asserted at 1e-6 relative for time-independent H; time-dependent H: error limits 5e-2 (2nd) / 5e-3 (4th) for dt <= 0.1, order ratios >= 2.5 / 6 (nominal 4 / 16) inside the asymptotic window only"]
CHUNK = 2
WALL_CAP = 900
WEIGHTS = {"m_tdvp_start": 1.0, "m_tdvp_step": 10, "m_measure": 2, "m_unary": 1, "m_spectrum": 0.7, "m_tdvp_relations": 2}


def budget(tier):
    return 160 if tier == "quick" else 4000


def after_op(w, task, rec, outs):
    if rec["op"] in ("m_measure", "m_unary", "m_spectrum") and any(isinstance(v, e2w.Worker) and not v.done and v.steps > 0 for v in task.slots.values()):
        w.stats["observer_between_snapshots"] += 1
    for q, s in enumerate(rec["out"]):
        if rec["op"] == "m_measure":
            e2.compare_dense(task, task.slots[s], task.shadows.get(s), PROP, "observer op %d %s" % (rec["id"], rec["args"]), tol=1e-9)


def on_exception(w, task, rec, exc):
    import numpy as np
    if rec["op"] in ("m_random_mps", "m_random_mpo") or "zero state" in str(exc):
        return
    if e2.known_meta_product(task, rec, exc):
        return
    if isinstance(exc, np.linalg.LinAlgError) and "injected" in str(exc):
        return
    raise core.Violation(PROP, "exception-where-result-promised", "op %d %s raised %s: %s" % (rec["id"], rec["op"], type(exc).__name__, str(exc)[:200]), op=rec["op"])


def run_seed(seed, tier):
    case = e2prop.build(seed, tier, PROP, WEIGHTS, nops=(4, 9), seed_ops=("m_tdvp_start",), Nmax=6, Nmin=2,
                        families=["SpinlessFermions", "SpinlessFermions", "Spin12", "Spin12", "Spin1", "SpinfulFermions"])
    v, w, info = e1prop.simulate(case, True, after_op, on_exception)
    info["checked_outputs"] = (w.stats.get("tdvp_snapshots_checked", 0) + w.stats.get("tdvp_relations_checked", 0)) * 4
    r = e1prop.result(case, v, w, info, seed, sample_every=40)
    strong = w.stats.get("full_manifold_snapshots", 0) + w.stats.get("tdvp_relations_checked", 0)
    sched = w.stats.get("observer_between_snapshots", 0) + max(0, w.stats.get("tdvp_snapshots_checked", 0) - 1)
    r["nontrivial"] = bool(strong > 0 and (sched > 0 or r["disturbed_effective"]))
    r["sim_time"] = w.stats.get("simulated_time_x1e6", 0) / 1e6
    return r


def replay(case):
    v, _, _ = e1prop.simulate(_copy.deepcopy(case), False, after_op, on_exception)
    return v


extra_evidence = e1prop.extra_evidence
