#!/venv/bin/python
"""./check.py <property id> [--tier quick|thorough] [--replay file] ...   (see sim/driver.py)"""
import os
import sys

_HS = os.environ.get("VERIF_HASHSEED", "0")      # the determinism self-test runs the checks under other hash seeds
if os.environ.get("PYTHONHASHSEED") != _HS:
    os.environ["PYTHONHASHSEED"] = _HS
    os.execv(sys.executable, [sys.executable] + sys.argv)

sys.path.insert(0, os.path.dirname(os.path.abspath(__file__)))
from sim import env  # noqa: E402,F401


def main():
    if len(sys.argv) < 2:
        print(__doc__)
        return 2
    name = sys.argv[1]
    import importlib
    if name.startswith("selftest"):
        mod = importlib.import_module("sim.selftest")
        return mod.main(sys.argv[1:])
    if name == "sensitivity":
        mod = importlib.import_module("sim.sensitivity")
        return mod.main(sys.argv[2:])
    mod = importlib.import_module("props." + name.lower())
    from sim import driver
    return driver.main(mod, sys.argv[2:])


if __name__ == "__main__":
    sys.exit(main())
