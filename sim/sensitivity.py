"""./check.py sensitivity <seeded dir or patch> <property id> [--runs N] [--tier T] [--seed S]

Copies VERIF_REPO (/repo) to a scratch directory outside /repo and /verif, applies one patch,
runs the property's check against the copy (VERIF_REPO=<copy>), reports whether a VIOLATION
that replays was found, and removes the copy.  Never touches /repo.
"""
import json
import os
import shutil
import subprocess
import sys
import tempfile
import time

from . import env


def main(argv):
    import argparse
    ap = argparse.ArgumentParser()
    ap.add_argument("patch")
    ap.add_argument("prop")
    ap.add_argument("--runs", type=int)
    ap.add_argument("--tier", default="quick")
    ap.add_argument("--seed", type=int, default=0)
    ap.add_argument("--keep", action="store_true")
    a = ap.parse_args(argv)
    patch = a.patch
    if os.path.isdir(patch):
        patch = os.path.join(patch, "patch.diff")
    patch = os.path.abspath(patch)
    scratch = tempfile.mkdtemp(prefix="verif-sens-", dir=os.environ.get("VERIF_SCRATCH", "/tmp"))
    copy = os.path.join(scratch, "repo")
    t0 = time.time()
    try:
        shutil.copytree(env.REPO, copy, ignore=shutil.ignore_patterns(".git", "__pycache__", "*.pyc", "docs", ".pytest_cache"))
        r = subprocess.run(["git", "apply", "--unsafe-paths", "--directory=" + copy, patch], capture_output=True, text=True, cwd="/")
        if r.returncode != 0:
            r = subprocess.run(["patch", "-p1", "-d", copy, "-i", patch], capture_output=True, text=True)
            if r.returncode != 0:
                print("SENSITIVITY: patch does not apply: %s" % (r.stderr or r.stdout))
                return 2
        e = dict(os.environ)
        e["VERIF_REPO"] = copy
        e["VERIF_REPLAY_DIR"] = os.path.join(scratch, "replays")
        e["VERIF_EVIDENCE_DIR"] = os.path.join(scratch, "evidence")
        cmd = [sys.executable, os.path.join(env.VERIF, "check.py"), a.prop, "--tier", a.tier, "--seed", str(a.seed)]
        if a.runs:
            cmd += ["--runs", str(a.runs)]
        p = subprocess.run(cmd, capture_output=True, text=True, env=e, cwd=env.VERIF)
        out = p.stdout
        found = [l for l in out.splitlines() if l.startswith("VIOLATION ")]
        detail = [l for l in out.splitlines() if l.startswith("violation: ")]
        res = {"patch": a.patch, "property": a.prop, "exit": p.returncode, "detected": bool(found) and p.returncode == 1,
               "violations": detail[:3], "wall_s": round(time.time() - t0, 1), "tail": out.splitlines()[-1:] }
        if found and a.keep:
            for l in found:
                src = l.split("replay=")[1]
                dst = os.path.join(os.path.dirname(patch), os.path.basename(src))
                shutil.copy(src, dst)
        print("SENSITIVITY " + json.dumps(res))
        if p.returncode not in (0, 1):
            print(out[-3000:])
            print(p.stderr[-3000:])
        return 0 if res["detected"] else 1
    finally:
        shutil.rmtree(scratch, ignore_errors=True)
