"""Generic driver: seeded search over simulated runs in forked workers, minimisation (ddmin),
replay files, known-findings handling and evidence writing.

A property module provides:
    PROP, ENGINE, LEVEL, RULE, TECHNIQUE
    budget(tier) -> int                         number of simulated runs
    run_seed(seed, tier) -> dict                one simulated run (see below)
    replay(case) -> dict | None                 exact re-execution of a case; violation dict or None
    (optional) REAL_STUB, ASSUMPTIONS, minimise_hooks

run_seed returns {"violation": dict|None, "case": case|None, "stats": Counter-like dict,
                  "probes": dict, "digest": str, "nontrivial": bool, "sample": obj,
                  "sim_time": float, "arm": str}
"""
import collections
import concurrent.futures
import copy
import faulthandler
import hashlib
import json
import multiprocessing
import os
import subprocess
import sys
import time
import traceback

from . import env

VERIF = env.VERIF
REPLAY_DIR = os.environ.get("VERIF_REPLAY_DIR", os.path.join(VERIF, "replays"))
EVIDENCE_DIR = os.environ.get("VERIF_EVIDENCE_DIR", os.path.join(VERIF, "evidence"))
KNOWN = os.path.join(VERIF, "known_findings.json")

EXIT_OK, EXIT_VIOLATION, EXIT_HARNESS = 0, 1, 2


def sig_of(v):
    return (v.get("property"), v.get("oracle"))


# ------------------------------------------------------------------------------------
# worker side
# ------------------------------------------------------------------------------------

_MOD = [None]


def _worker_init(modname):
    import importlib
    _MOD[0] = importlib.import_module(modname)
    faulthandler.enable()


def _run_chunk(args):
    seeds, tier, wall_cap = args
    mod = _MOD[0]
    out = []
    for seed in seeds:
        t0 = time.time()
        kill = os.environ.get("VERIF_TEST_KILL_SEED")        # self-test of the dead-worker path: the worker running this seed exits abruptly (once, or always with a trailing '!')
        if kill and kill.rstrip("!") == str(seed):
            marker = "/tmp/verif-kill-%s" % kill.rstrip("!")
            if kill.endswith("!") or not os.path.exists(marker):
                open(marker, "w").close()
                os._exit(3)
        faulthandler.dump_traceback_later(wall_cap, exit=True)
        try:
            r = mod.run_seed(seed, tier)
        except BaseException:
            r = {"harness_error": traceback.format_exc()[-3000:]}
        finally:
            faulthandler.cancel_dump_traceback_later()
        r["seed"] = seed
        r["wall"] = time.time() - t0
        out.append(r)
    return out


def _isolated_child(conn, modname, seed, tier, wall_cap):
    _worker_init(modname)
    try:
        conn.send(_run_chunk(([seed], tier, wall_cap)))
    finally:
        conn.close()


def _run_isolated(mod, seeds, tier, wall_cap, workers, ctx, deadline):
    """One forked process per seed; returns (results, seeds whose process died)."""
    todo, active, out, died = list(seeds), [], [], []
    while (todo or active) and time.time() < deadline:
        while todo and len(active) < workers:
            sd = todo.pop(0)
            pr, pw = ctx.Pipe(duplex=False)
            p = ctx.Process(target=_isolated_child, args=(pw, mod.__name__, sd, tier, wall_cap))
            p.start()
            pw.close()
            active.append((p, pr, sd))
        still = []
        for p, pr, sd in active:
            if pr.poll(0.01):
                try:
                    out.extend(pr.recv())
                except (EOFError, OSError):
                    died.append(sd)
                p.join(5)
            elif not p.is_alive():
                if pr.poll(0.05):
                    try:
                        out.extend(pr.recv())
                    except (EOFError, OSError):
                        died.append(sd)
                else:
                    died.append(sd)
                p.join(1)
            else:
                still.append((p, pr, sd))
        active = still
        if active and len(active) >= workers or not todo:
            time.sleep(0.02)
    for p, pr, sd in active:
        p.terminate()
        died.append(sd)
    died.extend(todo)
    return out, died


# ------------------------------------------------------------------------------------
# minimisation (generic case format)
# ------------------------------------------------------------------------------------

def case_size(case):
    return {"events": len(case.get("schedule", [])) + len(case.get("inner", {})),
            "ops": sum(len(t["program"]) for t in case.get("tasks", []))}


def _prune(case):
    """Drop ops whose inputs are not produced (transitively), and schedule entries / inner
    faults that point at ops or tasks that no longer exist."""
    live = set()
    for t in case["tasks"]:
        have = set()
        prog = []
        for rec in t["program"]:
            if all(s in have for s in rec["in"]):
                prog.append(rec)
                have.update(rec["out"])
        t["program"] = prog
        for rec in prog:
            live.add((t["id"], rec["id"]))
    tids = {t["id"] for t in case["tasks"]}
    sched = []
    for ev in case.get("schedule", []):
        if ev[0] == "op":
            if (ev[1], ev[2]) in live:
                sched.append(ev)
        elif ev[0] == "fault":
            sched.append(ev)
        else:
            sched.append(ev)
    case["schedule"] = sched
    inner = {}
    for a, act in case.get("inner", {}).items():
        tid, uid, k = a.split("/")
        try:
            key = (int(tid), int(uid))
        except ValueError:
            key = (tid, uid)
        if key in live or tid == "None":
            inner[a] = act
    case["inner"] = inner
    return case


def _ddmin(items, test, max_tests=400):
    """Classic ddmin over a list; test(sublist) -> True if the failure persists."""
    n = 2
    tests = 0
    while len(items) >= 1 and tests < max_tests:
        chunk = max(1, len(items) // n)
        reduced = False
        for i in range(0, len(items), chunk):
            cand = items[:i] + items[i + chunk:]
            tests += 1
            if test(cand):
                items = cand
                n = max(n - 1, 2)
                reduced = True
                break
            if tests >= max_tests:
                break
        if not reduced:
            if chunk == 1:
                break
            n = min(len(items), n * 2)
    return items


def minimise(mod, case, sig, deadline):
    """Shrink faults -> tasks -> ops while the same (property, oracle) still fires."""
    best = copy.deepcopy(case)

    def still(c):
        if time.time() > deadline:
            return False
        try:
            v = mod.replay(copy.deepcopy(c))
        except BaseException:
            return False
        return v is not None and sig_of(v) == sig

    if not still(best):
        return None

    # 1. boundary faults
    faults = [i for i, ev in enumerate(best["schedule"]) if ev[0] == "fault"]
    if faults:
        def t_f(keep):
            c = copy.deepcopy(best)
            ks = set(keep)
            c["schedule"] = [ev for i, ev in enumerate(best["schedule"]) if ev[0] != "fault" or i in ks]
            return still(c)
        keep = _ddmin(faults, t_f)
        ks = set(keep)
        best["schedule"] = [ev for i, ev in enumerate(best["schedule"]) if ev[0] != "fault" or i in ks]
    # 2. inner faults
    inner = sorted(best.get("inner", {}).keys())
    if inner:
        def t_i(keep):
            c = copy.deepcopy(best)
            c["inner"] = {a: best["inner"][a] for a in keep}
            return still(c)
        keep = _ddmin(inner, t_i)
        best["inner"] = {a: best["inner"][a] for a in keep}
    # 3. whole tasks
    if len(best["tasks"]) > 1:
        tids = [t["id"] for t in best["tasks"]]

        def t_t(keep):
            c = copy.deepcopy(best)
            c["tasks"] = [t for t in c["tasks"] if t["id"] in keep]
            c["schedule"] = [ev for ev in c["schedule"] if ev[0] != "op" or ev[1] in keep]
            return still(_prune(c))
        keep = _ddmin(tids, t_t)
        best["tasks"] = [t for t in best["tasks"] if t["id"] in keep]
        best["schedule"] = [ev for ev in best["schedule"] if ev[0] != "op" or ev[1] in keep]
        best = _prune(best)
    # 4. single ops (dependency closure through _prune)
    coupled = getattr(mod, "COUPLED_TASKS", False)   # all tasks run the same program (differential executions)
    if coupled:
        ops = sorted({rec["id"] for t in best["tasks"] for rec in t["program"]})
        inks = lambda t, r, ks: r["id"] in ks
    else:
        ops = [(t["id"], rec["id"]) for t in best["tasks"] for rec in t["program"]]
        inks = lambda t, r, ks: (t["id"], r["id"]) in ks

    def t_o(keep):
        c = copy.deepcopy(best)
        ks = set(keep)
        for t in c["tasks"]:
            t["program"] = [r for r in t["program"] if inks(t, r, ks)]
        return still(_prune(c))
    keep = _ddmin(ops, t_o, max_tests=600)
    ks = set(keep)
    for t in best["tasks"]:
        t["program"] = [r for r in t["program"] if inks(t, r, ks)]
    best = _prune(best)
    # 5. property-specific shrinking (sizes)
    if hasattr(mod, "shrink_sizes"):
        try:
            best = mod.shrink_sizes(best, still) or best
        except BaseException:
            pass
    if not still(best):
        return None
    return best


# ------------------------------------------------------------------------------------
# known findings
# ------------------------------------------------------------------------------------

def load_known():
    try:
        with open(KNOWN) as f:
            return json.load(f)
    except FileNotFoundError:
        return {"known": [], "fixed": []}


def match_known(prop, violation, known):
    """An entry matches when property, oracle and every key of its 'match' dict agree."""
    for k in known.get("known", []):
        if not isinstance(k, dict) or k.get("property") != prop:
            continue
        if k.get("oracle") and k["oracle"] != violation.get("oracle"):
            continue
        m = k.get("match", {})
        if not m:
            continue      # findings identified inside the run (core.known_hit) are never matched wholesale here
        if all(str(violation.get(a)) == str(b) or (isinstance(b, str) and b in str(violation.get(a, ""))) for a, b in m.items()):
            return k
    return None


# ------------------------------------------------------------------------------------
# main
# ------------------------------------------------------------------------------------

def _git_head(path):
    try:
        return subprocess.run(["git", "-C", path, "rev-parse", "--short", "HEAD"], capture_output=True, text=True, timeout=10).stdout.strip()
    except Exception:
        return "unknown"


def write_replay(prop, seed, case, tag=""):
    os.makedirs(REPLAY_DIR, exist_ok=True)
    path = os.path.join(REPLAY_DIR, "%s-%d%s.json" % (prop, seed, tag))
    with open(path, "w") as f:
        json.dump(case, f, indent=1, default=_json_default)
    return path


def _json_default(o):
    import numpy as np
    if isinstance(o, (np.integer,)):
        return int(o)
    if isinstance(o, (np.floating,)):
        return float(o)
    if isinstance(o, (set, tuple)):
        return list(o)
    if isinstance(o, complex):
        return [o.real, o.imag]
    return repr(o)


def replay_in_fresh_process(prop, path, timeout=600):
    cmd = [sys.executable, os.path.join(VERIF, "check.py"), prop, "--replay", path]
    e = dict(os.environ)
    e["PYTHONHASHSEED"] = "0"
    try:
        p = subprocess.run(cmd, capture_output=True, text=True, timeout=timeout, env=e, cwd=VERIF)
    except subprocess.TimeoutExpired:
        return None, "timeout"
    sig = None
    for line in p.stdout.splitlines():
        if line.startswith("REPLAY-RESULT "):
            sig = json.loads(line[len("REPLAY-RESULT "):])
    return sig, p.stdout[-2000:] + p.stderr[-2000:]


def do_replay(mod, path):
    with open(path) as f:
        case = json.load(f)
    v = mod.replay(case)
    exp = case.get("violation")
    print("REPLAY-RESULT " + json.dumps(v, default=_json_default))
    if v is None:
        print("replay: no violation reproduced")
        return EXIT_OK
    print("replay: violation reproduced: %s / %s: %s" % (v.get("property"), v.get("oracle"), v.get("detail")))
    if exp and sig_of(exp) != sig_of(v):
        print("replay: signature differs from the recorded one %s" % (sig_of(exp),))
    return EXIT_VIOLATION


def main(mod, argv=None):
    import argparse
    ap = argparse.ArgumentParser()
    ap.add_argument("--tier", default=os.environ.get("VERIF_TIER", "quick"))
    ap.add_argument("--replay")
    ap.add_argument("--runs", type=int)
    ap.add_argument("--workers", type=int, default=int(os.environ.get("VERIF_WORKERS", "16")))
    ap.add_argument("--seed", type=int, default=int(os.environ.get("VERIF_SEED", "0")))
    ap.add_argument("--no-evidence", action="store_true")
    ap.add_argument("--no-minimise", action="store_true")
    ap.add_argument("--dump-logs")  # determinism self-test: write per-seed digests here
    a = ap.parse_args(argv)
    prop = mod.PROP
    if a.replay:
        return do_replay(mod, a.replay)

    tier = a.tier
    t_start = time.time()
    base = a.seed * 1000003
    nruns = a.runs or mod.budget(tier)
    seeds = [base + i for i in range(nruns)]
    print("VERIF_SEED=%d tier=%s property=%s runs=%d workers=%d repo=%s head=%s" % (
        a.seed, tier, prop, nruns, a.workers, env.REPO, _git_head(env.REPO)), flush=True)
    wall_cap = getattr(mod, "WALL_CAP", 600)
    chunk = max(1, min(getattr(mod, "CHUNK", 8), nruns // (a.workers * 4) or 1))
    chunks = [(seeds[i:i + chunk], tier, wall_cap) for i in range(0, len(seeds), chunk)]
    results = []
    dead = 0
    ctx = multiprocessing.get_context("fork")
    import importlib
    deadline = time.time() + getattr(mod, "BATCH_CAP", 3 * 3600)
    unfinished = []
    with concurrent.futures.ProcessPoolExecutor(max_workers=a.workers, mp_context=ctx,
                                                initializer=_worker_init, initargs=(mod.__name__,)) as ex:
        futs = {ex.submit(_run_chunk, c): c for c in chunks}
        try:
            for fu in concurrent.futures.as_completed(futs, timeout=max(1.0, deadline - time.time())):
                try:
                    results.extend(fu.result())
                except BaseException:
                    unfinished.append(futs[fu])
        except concurrent.futures.TimeoutError:
            print("HARNESS: batch wall cap reached", flush=True)
            dead += sum(len(c[0]) for f, c in futs.items() if not f.done())
            for f in futs:
                f.cancel()
            unfinished = []
    if unfinished:
        # A worker that dies (wall cap of one seed reached -> faulthandler exits the process; or a crash) breaks the whole pool and fails every
        # pending future.  The seeds that did not finish are re-run with ONE PROCESS PER SEED, so that a seed that kills its process again takes
        # nothing else with it; such a seed is counted as a harness error (never as a pass).
        todo = [sd for c in unfinished for sd in c[0]]
        print("HARNESS: a worker died; re-running %d unfinished seeds in one process each" % len(todo), flush=True)
        res2, died = _run_isolated(mod, todo, tier, wall_cap, max(1, a.workers // 2), ctx, deadline)
        results.extend(res2)
        if died:
            dead += len(died)
            print("HARNESS: %d seeds killed their process again: %s" % (len(died), died[:8]), flush=True)
    results.sort(key=lambda r: r["seed"])
    wall_search = time.time() - t_start

    harness = [r for r in results if "harness_error" in r]
    viol = [r for r in results if r.get("violation")]
    known = load_known()
    exit_code = EXIT_OK
    reported = []
    known_lines = []
    seen_sigs = set()
    for r in viol:
        v = r["violation"]
        k = match_known(prop, v, known)
        if k is not None:
            line = "KNOWN-FINDING: property=%s %s" % (prop, k.get("what", ""))
            if line not in known_lines:
                known_lines.append(line)
            continue
        sg = sig_of(v) + (str(v.get("detail", ""))[:60],)
        if sg in seen_sigs and len(reported) >= 1:
            continue
        if len(reported) >= 3:
            continue
        seen_sigs.add(sg)
        case = r["case"]
        case["violation"] = v
        case["seed"] = r["seed"]
        case["repo_head"] = _git_head(env.REPO)
        size0 = case_size(case)
        final = case
        tag = ""
        if not a.no_minimise:
            small = None
            try:
                small = minimise(mod, case, sig_of(v), time.time() + getattr(mod, "MINIMISE_CAP", 240))
            except BaseException:
                traceback.print_exc()
            if small is not None:
                small["minimised_from"] = size0
                small.update(case_size(small))
                vv = mod.replay(copy.deepcopy(small))
                if vv is not None:
                    small["violation"] = vv
                    final = small
        path = write_replay(prop, r["seed"], final)
        sig, out = replay_in_fresh_process(prop, path)
        if sig is None or sig_of(sig) != sig_of(v):
            # fall back to the unminimised event list
            path = write_replay(prop, r["seed"], case, "-full")
            sig, out = replay_in_fresh_process(prop, path)
        if sig is None or sig_of(sig) != sig_of(v):
            print("HARNESS: violation of seed %d did not reproduce in a fresh process (%s); replay kept at %s" % (r["seed"], v, path), flush=True)
            print(out)
            exit_code = max(exit_code, EXIT_HARNESS)
            continue
        print("violation: %s / %s: %s" % (v.get("property"), v.get("oracle"), str(v.get("detail"))[:600]))
        print("VIOLATION property=%s replay=%s" % (prop, path), flush=True)
        reported.append(path)
        exit_code = EXIT_VIOLATION if exit_code != EXIT_HARNESS else exit_code
    # every listed (unrepaired) finding of this property is printed, with how often this run reproduced it
    hits = collections.Counter()
    for r in results:
        for kk, vv in (r.get("stats") or {}).items():
            if kk.startswith("known:"):
                hits[kk[len("known:"):]] += vv
    for kf in known.get("known", []):
        if isinstance(kf, dict) and kf.get("property") == prop:
            line = "KNOWN-FINDING: property=%s %s: %s [reproduced %d times in this run]" % (prop, kf.get("id", ""), kf.get("what", "")[:300], hits.get(kf.get("id", ""), 0))
            known_lines = [l for l in known_lines if kf.get("what", "")[:40] not in l]
            known_lines.append(line)
    for line in known_lines:
        print(line)

    nres = len(results)
    if harness:
        print("HARNESS: %d of %d runs ended in a harness error; first:\n%s" % (len(harness), nres, harness[0]["harness_error"]), flush=True)
    frac = (len(harness) + dead) / max(1, nres + dead)
    if frac > 0.02 and exit_code == EXIT_OK:
        exit_code = EXIT_HARNESS
    if dead and exit_code == EXIT_OK:
        exit_code = EXIT_HARNESS      # a seed that ran into the wall cap / killed its process twice is never a pass
    if nres == 0:
        exit_code = EXIT_HARNESS

    if a.dump_logs:
        with open(a.dump_logs, "w") as f:
            import hashlib as _hl
            for r in sorted(results, key=lambda r: r["seed"]):
                # one line per run: schedule digest + digest of everything the run observed (stats, probes, violation)
                obs = json.dumps([sorted((r.get("stats") or {}).items()), sorted((r.get("probes") or {}).items()), r.get("violation"), r.get("nontrivial")], sort_keys=True, default=str)
                f.write("%d %s %s\n" % (r["seed"], r.get("digest", "-"), _hl.sha256(obs.encode()).hexdigest()[:24]))

    if not a.no_evidence:
        write_evidence(mod, a, tier, results, harness, dead, viol, reported, known_lines, wall_search, time.time() - t_start)
    ok = [r for r in results if "harness_error" not in r]
    print("done: %d runs, %d non-trivial, %d violations (%d reported, %d known), %d harness errors, %.1fs" % (
        nres, sum(1 for r in ok if r.get("nontrivial")), len(viol), len(reported), len(known_lines), len(harness) + dead,
        time.time() - t_start), flush=True)
    return exit_code


def write_evidence(mod, a, tier, results, harness, dead, viol, reported, known_lines, wall_search, wall):
    ok = [r for r in results if "harness_error" not in r]
    stats = collections.Counter()
    probes = collections.Counter()
    arms = collections.Counter()
    sim_time = 0.0
    digests_nt = set()
    digests = set()
    for r in ok:
        for k, v in (r.get("stats") or {}).items():
            stats[k] += v
        for k, v in (r.get("probes") or {}).items():
            probes[k] += v
        arms[r.get("arm", "?")] += 1
        sim_time += r.get("sim_time", 0.0)
        if r.get("digest"):
            digests.add(r["digest"])
            if r.get("nontrivial"):
                digests_nt.add(r["digest"])
    samples = [r["sample"] for r in ok if r.get("sample") is not None][:3]
    if not samples:
        samples = [{"note": "no sample recorded"}]
    faults_fired = {k[len("fault_"):]: v for k, v in stats.items() if k.startswith("fault_")}
    faults_eff = {k[len("effective_"):]: v for k, v in stats.items() if k.startswith("effective_")}
    hours = max(wall_search, 1e-9) / 3600.0
    ev = {
        "property_id": mod.PROP,
        "tier": tier if tier in ("quick", "thorough") else "quick",
        "seed": a.seed,
        "level": mod.LEVEL,
        "coverage": {
            "evaluations": len(ok),
            "distinct_nontrivial": len(digests_nt),
            "rule": mod.RULE,
            "samples": samples,
            "distinct_schedules": len(digests),
            "seed_range": [results[0]["seed"], results[-1]["seed"]] if results else [],
            "runs_per_hour": int(len(ok) / hours),
            "logical_events": int(stats.get("events", 0)),
            "ops_executed": int(stats.get("ops", 0)),
            "simulated_time_covered": sim_time,
            "arms": dict(arms),
            "faults_fired": faults_fired,
            "faults_effective": faults_eff,
            "probes": dict(probes),
            "stats": {k: v for k, v in stats.items() if not k.startswith("fault_") and not k.startswith("effective_")},
            "harness_errors": len(harness) + dead,
            "real_vs_stub": getattr(mod, "REAL_STUB", ""),
            "known_findings_printed": known_lines,
            "replays": reported,
            "technique": getattr(mod, "TECHNIQUE", ""),
            "repo_head": _git_head(env.REPO),
        },
        "assumptions": list(getattr(mod, "ASSUMPTIONS", [])),
        "wall_s": round(wall, 2),
        "violations": len(reported),
    }
    if hasattr(mod, "extra_evidence"):
        try:
            ev["coverage"].update(mod.extra_evidence(ok))
        except BaseException:
            traceback.print_exc()
    os.makedirs(EVIDENCE_DIR, exist_ok=True)
    path = os.path.join(EVIDENCE_DIR, "%s.json" % mod.PROP)
    with open(path, "w") as f:
        json.dump(ev, f, indent=1, default=_json_default)
