"""E2 workers: dmrg_ / tdvp_ / compression_ generators as stepped tasks.

`*_start` creates the worker (generator + the objects it updates in place) and puts it in a slot;
`*_step` is one scheduler step = one next() on the generator (one sweep / one snapshot); other ops
(observers on psi, fault events, cancellation, Method switches) run between steps because they are
separate entries of the same schedule.  Oracles are evaluated at every yield against the dense
model (Jordan-Wigner Hamiltonian from sim/models/jw.py, scipy.linalg.expm).
"""
import numpy as np
import scipy.linalg

from . import core, e1, e2
from .core import yastn
from .models import mps_dense

import yastn.tn.mps as mps

V = core.Violation


# ---- seam: the Krylov basis builder (observed from outside; behaviour unchanged) -------------------------------------
_ORIG_EXPAND = yastn.Tensor.expand_krylov_space


class KrylovStepCap(Exception):
    """Raised by the probe when one worker step asks for more Krylov expansions than the simulator's step budget."""


KRYLOV_BUDGET = 6000       # expansions per op; ordinary ops need tens to a few hundred (relation ops: up to ~2000)


def _observed_expand(self, f, tol, ncv, hermitian, V, H=None, **kwargs):
    wd = core.current_world()
    if wd is not None:
        wd.krylov_calls = getattr(wd, "krylov_calls", 0) + 1
        if wd.krylov_calls > KRYLOV_BUDGET:
            raise KrylovStepCap("more than %d Krylov expansions inside one worker step" % KRYLOV_BUDGET)
    V2, H2, happy = _ORIG_EXPAND(self, f, tol, ncv, hermitian, V, H, **kwargs)
    if wd is not None and 2 <= len(V2) <= 16:
        # probe: did the basis stay orthonormal?  (an undetected Lanczos/Arnoldi breakdown shows up here)
        dev = 0.0
        for i in range(len(V2)):
            for j in range(i + 1):
                g = abs(complex(V2[i].vdot(V2[j])))
                dev = max(dev, abs(g - (1.0 if i == j else 0.0)))
        if dev > 1e-10:
            wd.krylov_bad = getattr(wd, "krylov_bad", 0) + 1
            wd.probes["krylov_basis_lost_orthonormality"] += 1
    return V2, H2, happy


yastn.Tensor.expand_krylov_space = _observed_expand


def krylov_bad():
    return getattr(core.current_world(), "krylov_bad", 0)


class Worker:
    def __init__(self, kind):
        self.kind = kind
        self.gen = None
        self.steps = 0
        self.done = False
        self.energies = []
        self.log = []          # H(t) callback log (TDVP)
        self.info = {}


def build_H(task, spec):
    """spec: {"parts": [[factor, terms], ...], "form": "single" | "list"} -> (yastn H argument, dense matrix)."""
    sp = task.space
    I = mps.product_mpo(sp.table["I"], task.N)
    parts, dense = [], 0
    for fac, terms in spec["parts"]:
        dpart = sp.dense_terms(task.N, terms)
        if not np.any(np.abs(dpart) > 1e-13):
            # a part whose terms cancel identically is the zero operator: generate_mpo returns an MPO without blocks, on which Env raises IndexError
            # (observation, DESIGN 7.4); such a part contributes nothing and is left out on both sides
            continue
        Hm = mps.generate_mpo(I, sp.hterms(terms))
        parts.append(fac * Hm if fac != 1 else Hm)
        dense = dense + fac * dpart
    if not parts:       # everything cancelled: the zero operator in a form the library accepts (identity MPO with factor 0)
        parts = [0.0 * I]
        dense = np.zeros((sp.d ** task.N, sp.d ** task.N), dtype=complex)
    if spec["form"] == "single":
        H = parts[0]
        for p in parts[1:]:
            H = H + p
        return H, dense
    return parts, dense


def gen_H(g, nparts=None):
    rng, t = g.rng, g.task
    nparts = nparts or rng.choice([1, 1, 2, 3])
    parts = []
    for _ in range(nparts):
        fac = 1 if rng.random() < 0.5 else rng.choice([0.4, 2.5, 0.5, 1.7])
        parts.append([fac, t.space.hermitian_terms(rng, t.N, rng.randint(1, 4))])
    return {"parts": parts, "form": "single" if nparts == 1 or rng.random() < 0.3 else "list"}


def sector_of(task, psi_dense):
    c = e2.charge_of(task, psi_dense)
    return c


def max_bond_dimensions(task, mask):
    """Schmidt ranks of a generic state of the sector across every cut = the maximal bond dimensions."""
    key = (task.N, task.space.d, mask.tobytes())
    if key not in _MAXD:
        r = np.random.default_rng(12345)
        v = np.where(mask, r.normal(size=mask.shape), 0.0).reshape((task.space.d,) * task.N)
        dims = [1]
        for cut in range(1, task.N):
            dims.append(int(np.linalg.matrix_rank(v.reshape(task.space.d ** cut, -1))))
        dims.append(1)
        _MAXD[key] = tuple(dims)
    return _MAXD[key]


_MAXD = {}


def sector_mask(task, sector, size):
    if task.space.sym.nsym == 0:
        return np.ones(size, dtype=bool)
    mask = np.zeros(size, dtype=bool)
    for n in sector:
        mask |= task.space.sector_mask(task.N, n)
    return mask


def dense_state(task, psi):
    return e2.dense_of(task, psi).reshape(-1)


def init_state(task, ar, full=False):
    """Initial MPS: random of given charge and bond dimension, or (full=True) from a dense random vector in the sector
    through mps_from_tensor, i.e. at maximal bond dimension."""
    sp = task.space
    n = tuple(ar["n"]) if ar.get("n") is not None and sp.sym.nsym else None
    if full:
        ten = yastn.rand(sp.cfg, legs=[sp.leg] * task.N, n=n, dtype=ar.get("dtype", "float64"))
        psi = mps.mps_from_tensor(ten, nr_phys=1, canonize="first")
        psi.canonize_(to="first", normalize=True)
        return psi
    I = mps.product_mpo(sp.table["I"], task.N)
    kw = {"n": n} if n is not None else {}
    return mps.random_mps(I, D_total=ar["D"], dtype=ar.get("dtype", "float64"), **kw)


def reachable_charge(g, balanced=False):
    sp, t = g.task.space, g.task
    if not sp.sym.nsym:
        return None
    if balanced:
        # the sector of an alternating configuration: the largest one, where bond spaces can be space-maximal
        ts = [sp.site.ts[i % len(sp.site.ts)] for i in range(t.N)]
        return list(sp.sym.fuse(ts, [1] * t.N))
    return list(sp.sym.fuse([g.rng.choice(sp.site.ts) for _ in range(t.N)], [1] * t.N))


# ----------------------------------------------------------------------------------------------------------
# DMRG (C09)
# ----------------------------------------------------------------------------------------------------------

@e1.register
class MDmrgStart(e1.Op):
    name = "m_dmrg_start"
    creates = True

    def nout(self, rec):
        return 2      # worker, psi

    def gen(self, g):
        rng, t = g.rng, g.task
        if t.N < 2:
            return None
        method = rng.choice(["1site", "2site", "2site"])
        args = {"H": gen_H(g), "n": reachable_charge(g), "D": rng.choice([1, 2, 4, 4, 8, 8, 16]), "dtype": "complex128" if rng.random() < 0.35 else "float64",
                "method": method, "precompute": rng.random() < 0.5, "full": rng.random() < 0.3,
                "opts_eigs": rng.choice([None, None, {"hermitian": True, "ncv": 4, "which": "SR"}, {"hermitian": True, "ncv": 8, "which": "SR"},
                                         {"hermitian": True, "ncv": 5}, {"hermitian": True, "ncv": 6, "tol": 1e-12}]),    # partial dictionaries rely on the solver's own defaults (seeded C09-c)
                "opts_svd": rng.choice([{"tol": 1e-14, "D_total": 4096}, {"tol": 1e-13}, {"D_total": 4096}]),
                "project": rng.random() < 0.25, "penalty": rng.choice([None, 50.0]), "max_sweeps": rng.randint(2, 8)}
        if args["project"]:
            # penalties act through <phi|psi>: complex states make a conjugation slip visible; give the run time to settle
            args["dtype"] = rng.choice(["complex128", "complex128", "float64"])
            args["max_sweeps"] = rng.randint(5, 9)
            args["method"] = rng.choice(["1site", "1site", "2site"])
            if args["method"] == "1site":
                args["full"] = True      # 1site cannot grow bonds: orthogonality to the projected state needs room (maximal bond dimension)
        if any(abs(a[1]) > 0 for fac, terms in args["H"]["parts"] for a, _, _ in terms):
            args["dtype"] = "complex128"
        return {"op": "m_dmrg_start", "in": [], "args": args}

    def run(self, task, rec, ins):
        ar = rec["args"]
        H, Hd = build_H(task, ar["H"])
        psi = init_state(task, ar, full=ar["full"])
        w = Worker("dmrg")
        d0 = dense_state(task, psi)
        sector = sector_of(task, d0)
        mask = sector_mask(task, sector, len(d0))
        Hs = Hd[np.ix_(mask, mask)]
        ev = np.linalg.eigvalsh((Hs + Hs.conj().T) / 2) if mask.any() else np.zeros(1)
        w.info.update({"args": ar, "precompute": ar["precompute"], "Hd": Hd, "mask": mask, "spectrum": ev, "sector": sector, "binding": False, "project_states": []})
        project = None
        if ar["project"] and len(ev) >= 2:
            # previously found state: ground state from a converged auxiliary run
            psi0 = init_state(task, dict(ar, D=64), full=False)
            mps.dmrg_(psi0, H, method="2site", max_sweeps=30, energy_tol=1e-13, opts_svd={"tol": 1e-14, "D_total": 4096}, opts_eigs={"hermitian": True, "ncv": 8, "which": "SR"})
            d_psi0 = dense_state(task, psi0)
            e_psi0 = float(np.real(np.vdot(d_psi0, Hd @ d_psi0)))
            w.info["project_states"] = [d_psi0]
            w.info["project_energy"] = e_psi0
            project = [psi0] if ar["penalty"] is None else [(ar["penalty"], psi0)]
        w.method = yastn.Method(ar["method"])
        kw = {}
        if ar["opts_eigs"] is not None:
            kw["opts_eigs"] = dict(ar["opts_eigs"])
        w.gen = mps.dmrg_(psi, H, project=project, method=w.method, max_sweeps=ar["max_sweeps"], iterator=True,
                          opts_svd=dict(ar["opts_svd"]), precompute=ar["precompute"], **kw)
        w.psi = psi
        w.H = H
        return [w, psi]

    def shadow(self, task, rec, sins, outs, ins=None):
        return ["worker", e2.dense_of(task, outs[1])]


@e1.register
class MDmrgStep(e1.Op):
    name = "m_dmrg_step"
    inplace = True

    def nout(self, rec):
        return 0

    def gen(self, g):
        ws = [s for s, v in g.task.slots.items() if isinstance(v, Worker) and v.kind == "dmrg" and not v.done]
        if not ws:
            return None
        w = g.rng.choice(ws)
        switch = g.rng.choice([None, None, None, "1site", "2site"])
        return {"op": "m_dmrg_step", "in": [w], "args": {"switch_to": switch}}

    def run(self, task, rec, ins):
        w = ins[0]
        if w.done:
            return []
        if rec["args"]["switch_to"] is not None:
            w.method.update_(rec["args"]["switch_to"])       # F9: method switched between yields
            core.current_world().stats["fault_method_switch"] += 1
        k0 = krylov_bad()
        core.current_world().krylov_calls = 0
        try:
            self._out = next(w.gen)
        except StopIteration:
            w.done = True
            self._out = None
        w.steps += 1
        if krylov_bad() > k0:
            w.info["tainted"] = True      # known finding K-C09-krylov-breakdown happened inside this sweep
        return []

    def shadow(self, task, rec, sins, outs, ins=None):
        w = ins[0]
        if not w.info.get("tainted"):
            return self._shadow(task, rec, sins, outs, ins)
        try:
            return self._shadow(task, rec, sins, outs, ins)
        except core.Violation as v:
            # only what a broken Ritz pair explains is attributed to the known finding
            if v.prop == "C09" and v.oracle in ("normalised", "canonical", "energy-is-expectation-value", "monotone", "variational", "eigenstate"):
                core.known_hit("K-C09-krylov-breakdown")
                w.energies = []
                return []
            raise

    def _shadow(self, task, rec, sins, outs, ins=None):
        w = ins[0]
        wd = core.current_world()
        psi_slot = [s for s, v in task.slots.items() if v is w.psi]
        d = dense_state(task, w.psi)
        for s in psi_slot:
            task.shadows[s] = d.reshape((task.space.d,) * task.N)
        if getattr(wd, "generating", False) or self._out is None:
            return []
        prop = "C09"
        out = self._out
        what = "dmrg sweep %d (method %s, precompute %s)" % (out.sweeps, out.method, w.info.get("precompute"))
        Hd, mask, ev = w.info["Hd"], w.info["mask"], w.info["spectrum"]
        nrm = float(np.linalg.norm(d))
        if abs(nrm - 1) > 1e-6:      # (Krylov solver tolerance)
            raise V(prop, "normalised", "%s: |psi| = %.12g" % (what, nrm))
        if not w.psi.is_canonical(to="first", tol=1e-9):
            raise V(prop, "canonical", "%s: psi is not canonical to the first site" % what)
        if np.linalg.norm(d[~mask]) > 1e-9:
            raise V(prop, "charge-sector", "%s: psi left the charge sector of the initial state (weight %.3e outside)" % (what, float(np.linalg.norm(d[~mask]))))
        E = float(np.real(np.vdot(d, Hd @ d)))
        W = float(ev[-1] - ev[0]) + 1.0
        pen = 0.0
        if w.info["project_states"]:
            # the reported energy includes the penalty term; compare after removing it
            for ps in w.info["project_states"]:
                pen += abs(np.vdot(ps, d)) ** 2
        if not w.info["project_states"]:
            if abs(float(out.energy) - E) > 1e-8 * W:
                raise V(prop, "energy-is-expectation-value", "%s: reported energy %.12g, <psi|H|psi> of the returned state %.12g" % (what, float(out.energy), E))
            if E < ev[0] - 1e-8 * W:
                raise V(prop, "variational", "%s: energy %.12g below the lowest eigenvalue %.12g of H in the sector" % (what, E, ev[0]))
            if w.energies and E > w.energies[-1] + 1e-8 * W and not w.info["binding"]:
                raise V(prop, "monotone", "%s: energy increased from %.12g to %.12g although no truncation binds" % (what, w.energies[-1], E))
            w.energies.append(E)
            converged = len(w.energies) >= 3 and abs(w.energies[-1] - w.energies[-2]) < 1e-12 * W and abs(w.energies[-2] - w.energies[-3]) < 1e-12 * W
            if converged and out.method == "2site" and tuple(w.psi.get_bond_dimensions()) == max_bond_dimensions(task, mask):
                res = float(np.linalg.norm((Hd @ d - E * d)[mask]))
                if res > 1e-4 * W:
                    raise V(prop, "eigenstate", "%s: converged at maximal bond dimension but |H psi - E psi| = %.3e" % (what, res))
                wd.stats["converged_runs"] += 1
        else:
            ovl = max(abs(np.vdot(ps, d)) for ps in w.info["project_states"])
            w.energies.append(E)
            roomy = tuple(w.psi.get_bond_dimensions()) == max_bond_dimensions(task, mask)
            if roomy and len(w.energies) >= 3 and abs(w.energies[-1] - w.energies[-2]) < 1e-8 * W and abs(w.energies[-2] - w.energies[-3]) < 1e-8 * W:
                if ovl > 1e-2:
                    raise V(prop, "penalty-orthogonal", "%s: converged with projection penalty but overlap with the projected state is %.3e" % (what, ovl))
                if len(ev) >= 2 and E < ev[1] - 1e-6 * W:
                    raise V(prop, "penalty-next-level", "%s: energy %.10g below the next level %.10g with the ground state projected out" % (what, E, ev[1]))
                wd.stats["converged_projected_runs"] += 1
        wd.stats["dmrg_sweeps_checked"] += 1
        return []


# ----------------------------------------------------------------------------------------------------------
# TDVP (C10)
# ----------------------------------------------------------------------------------------------------------

def h_of_t(task, hspec, tdep):
    """Time-dependent generator as a recording callback: H(t) = H0 + f(t) H1 with f(t) = a + b t."""
    H0, H0d = build_H(task, {"parts": hspec["parts"][:1], "form": "single"})
    if len(hspec["parts"]) > 1:
        sp = task.space
        if not np.any(np.abs(sp.dense_terms(task.N, hspec["parts"][1][1])) > 1e-13):
            # the time-dependent part cancels identically: use the zero operator in a form the library accepts (factor 0), not an MPO without blocks
            H1, H1d = 0.0 * H0, 0.0 * H0d
        else:
            H1, H1d = build_H(task, {"parts": hspec["parts"][1:2], "form": "single"})
    else:
        H1, H1d = H0, H0d
    a, b = tdep

    def f(t):
        return a + b * t
    return H0, H0d, H1, H1d, f


@e1.register
class MTdvpStart(e1.Op):
    name = "m_tdvp_start"
    creates = True

    def nout(self, rec):
        return 2

    def gen(self, g):
        rng, t = g.rng, g.task
        if t.N < 2:
            return None
        method = rng.choice(["1site", "1site", "2site", "12site"])
        if t.space.d ** t.N > 256:
            return None
        nsnap = rng.choice([1, 2, 3])
        times = [0.0]
        for _ in range(nsnap):
            times.append(round(times[-1] + rng.choice([0.05, 0.1, 0.13, 0.2]), 6))
        u = rng.choice([[0.0, 1.0], [0.0, 1.0], [1.0, 0.0], [0.6, 0.8]])
        tdep = None
        if rng.random() < 0.3 and t.space.d ** t.N <= 81:
            tdep = [round(rng.uniform(0.5, 1.5), 3), round(rng.uniform(-2, 2), 3)]
        args = {"H": gen_H(g, nparts=2 if tdep else None), "n": reachable_charge(g), "D": rng.choice([2, 4, 8]), "dtype": "complex128",
                "method": method, "order": rng.choice(["2nd", "2nd", "4th"]), "times": times, "dt": rng.choice([0.03, 0.05, 0.07, 0.1]) if times[-1] <= 0.3 else rng.choice([0.05, 0.07, 0.1]), "u": u,
                "normalize": rng.random() < 0.5, "subtract_E": rng.random() < 0.3, "precompute": rng.random() < 0.5, "full": rng.random() < 0.6,
                "yield_initial": rng.random() < 0.2, "tdep": tdep, "opts_svd": {"tol": 1e-14, "D_total": 4096}}
        if args["full"] and rng.random() < 0.7:
            args["n"] = reachable_charge(g, balanced=True)
        return {"op": "m_tdvp_start", "in": [], "args": args}

    def run(self, task, rec, ins):
        ar = rec["args"]
        w = Worker("tdvp")
        psi = init_state(task, ar, full=ar["full"])
        u = complex(*ar["u"])
        if ar["tdep"]:
            H0, H0d, H1, H1d, f = h_of_t(task, ar["H"], ar["tdep"])

            def Hcb(t, H0=H0, H1=H1, f=f, w=w):
                w.log.append(float(t))        # recording callback (logical clock only: no wall clock, no PRNG)
                return [H0, f(t) * H1]
            H = Hcb
            w.info["Hd_t"] = lambda t: H0d + f(t) * H1d
            Hd = None
        else:
            H, Hd = build_H(task, ar["H"])
        d0 = dense_state(task, psi)
        w.info.update({"args": ar, "Hd": Hd, "psi0": d0, "u": u, "sector": sector_of(task, d0), "t_done": 0.0, "binding": False, "snap": 0, "ref": d0.copy()})
        kw = {}
        if ar["method"] in ("2site", "12site"):
            kw["opts_svd"] = dict(ar["opts_svd"])
        w.gen = mps.tdvp_(psi, H, times=tuple(ar["times"]), dt=ar["dt"], u=u, method=ar["method"], order=ar["order"], normalize=ar["normalize"],
                          subtract_E=ar["subtract_E"], precompute=ar["precompute"], yield_initial=ar["yield_initial"], **kw)
        w.psi = psi
        return [w, psi]

    def shadow(self, task, rec, sins, outs, ins=None):
        return ["worker", e2.dense_of(task, outs[1])]


def exact_step(w, ar, t0, t1):
    """Reference propagation of w.info['ref'] from t0 to t1 with dense exponentials."""
    u = w.info["u"]
    if w.info["Hd"] is not None:
        return scipy.linalg.expm(-u * (t1 - t0) * w.info["Hd"]) @ w.info["ref"]
    # time dependent: fine-grid product of midpoint exponentials
    n = 200
    h = (t1 - t0) / n
    v = w.info["ref"]
    for k in range(n):
        v = scipy.linalg.expm(-u * h * w.info["Hd_t"](t0 + (k + 0.5) * h)) @ v
    return v


@e1.register
class MTdvpStep(e1.Op):
    name = "m_tdvp_step"
    inplace = True

    def nout(self, rec):
        return 0

    def gen(self, g):
        ws = [s for s, v in g.task.slots.items() if isinstance(v, Worker) and v.kind == "tdvp" and not v.done]
        if not ws:
            return None
        return {"op": "m_tdvp_step", "in": [g.rng.choice(ws)], "args": {}}

    def run(self, task, rec, ins):
        w = ins[0]
        self._out = None
        self._nlog0 = len(w.log)
        if w.done:
            return []
        wd = core.current_world()
        wd.krylov_calls = 0
        try:
            self._out = next(w.gen)
        except StopIteration:
            w.done = True
        except KrylovStepCap:
            # known finding K-C10-expmv-stagnation: expmv's adaptive step collapses (tau ~ 1e-8) and the sweep would need ~1e7 iterations.
            # The simulator's step budget ends the worker; no oracle can be evaluated on a result that was never produced.
            core.known_hit("K-C10-expmv-stagnation")
            w.done = True
            self._out = None
        w.steps += 1
        return []

    def shadow(self, task, rec, sins, outs, ins=None):
        w = ins[0]
        wd = core.current_world()
        d = dense_state(task, w.psi)
        for s, v in task.slots.items():
            if v is w.psi:
                task.shadows[s] = d.reshape((task.space.d,) * task.N)
        if getattr(wd, "generating", False) or self._out is None:
            return []
        prop = "C10"
        out = self._out
        ar = w.info["args"]
        times = ar["times"]
        what = "tdvp snapshot %d (method %s, order %s, u=%s, dt=%s)" % (w.info["snap"], ar["method"], ar["order"], ar["u"], ar["dt"])
        if out.steps == 0:      # yield_initial
            if out.tf != times[0] or out.ti != times[0]:
                raise V(prop, "time-bookkeeping", "%s: initial yield reports ti=%r tf=%r" % (what, out.ti, out.tf))
            return []
        k = w.info["snap"]
        t0, t1 = times[k], times[k + 1]
        w.info["snap"] += 1
        if abs(out.tf - t1) > 4 * np.finfo(float).eps * out.steps * max(1.0, abs(t1)) or out.ti != t0:
            raise V(prop, "time-bookkeeping", "%s: reported (ti, tf) = (%r, %r), requested snapshot (%r, %r)" % (what, out.ti, out.tf, t0, t1))
        if abs(out.steps * out.dt - (t1 - t0)) > 1e-12 or out.dt > ar["dt"] * (1 + 1e-12):
            raise V(prop, "time-bookkeeping", "%s: steps*dt = %r for an interval of %r (dt requested %r, used %r)" % (what, out.steps * out.dt, t1 - t0, ar["dt"], out.dt))
        if (t1 - t0) / out.steps < ar["dt"] / 2 * (1 - 1e-9) and out.steps > 1 and (t1 - t0) / (out.steps - 1) <= ar["dt"] * (1 + 1e-12):
            raise V(prop, "time-bookkeeping", "%s: %d steps where %d suffice" % (what, out.steps, out.steps - 1))
        if ar["tdep"]:
            q = w.log[self._nlog0:]
            expect = out.steps * (1 if ar["order"] == "2nd" else 5)
            if len(q) != expect:
                raise V(prop, "callback-count", "%s: generator queried %d times, expected %d" % (what, len(q), expect))
            if any(x < t0 - 1e-12 or x > t1 + 1e-12 for x in q):
                raise V(prop, "callback-times", "%s: generator queried outside [%r, %r]: %s" % (what, t0, t1, [x for x in q if x < t0 or x > t1][:3]))
        wd.stats["simulated_time_x1e6"] += int(round((t1 - t0) * 1e6))
        # physics
        u = w.info["u"]
        ref = exact_step(w, ar, t0, t1)
        nr = float(np.linalg.norm(ref))
        if ar["normalize"] and nr > 0:
            ref = ref / nr
        w.info["ref"] = ref
        nrm = float(np.linalg.norm(d))
        mask = sector_mask(task, w.info["sector"], len(d))
        if np.linalg.norm(d[~mask]) > 1e-9 * max(1.0, nrm):
            raise V(prop, "charge-sector", "%s: state left its charge sector" % what)
        # canonical form: every site but the first is an isometry towards the first site (the terminal tensor carries the state;
        # '2site' with normalize=False keeps the norm there instead of in .factor, so is_canonical() is not used here)
        if w.psi.pC is not None:
            raise V(prop, "canonical", "%s: a central block is left pending" % what)
        e2.check_isometries(task, w.psi, "first", prop, what)
        real_time = abs(u.real) < 1e-15
        if ar["normalize"] and abs(nrm - 1) > 1e-6:
            raise V(prop, "norm", "%s: |psi| = %.12g with normalize=True" % (what, nrm))
        if real_time and not ar["tdep"]:
            n0 = float(np.linalg.norm(w.info["psi0"]))
            if not ar["normalize"] and abs(nrm - n0) > 1e-5 * n0:
                raise V(prop, "norm-conserved", "%s: norm %.12g -> %.12g in real-time evolution" % (what, n0, nrm))
            Hd = w.info["Hd"]
            e0 = float(np.real(np.vdot(w.info["psi0"], Hd @ w.info["psi0"]))) / n0 ** 2
            e1_ = float(np.real(np.vdot(d, Hd @ d))) / nrm ** 2
            Wd = float(np.linalg.norm(Hd, 2)) + 1.0
            if abs(e1_ - e0) > 1e-6 * Wd:
                raise V(prop, "energy-conserved", "%s: energy %.12g -> %.12g in real-time evolution" % (what, e0, e1_))
        dmax = tuple(min(task.space.d ** l, task.space.d ** (task.N - l)) for l in range(task.N + 1))
        if ar["full"] and tuple(w.psi.get_bond_dimensions()) != dmax:
            # Schmidt-rank-maximal inside a narrow charge sector is not enough: the projector-splitting integrator is exact only
            # when the bond spaces span the whole left (or right) Hilbert space, i.e. D = min(d^l, d^(N-l)) at every cut
            wd.stats["full_but_not_space_maximal"] += 1
        elif ar["full"]:
            # maximal bond dimension: the evolved state coincides with the dense exponential (up to a global phase if subtract_E)
            a, b = d, ref
            if ar["subtract_E"]:
                # subtracting the instantaneous energy multiplies the state by a scalar (a phase in real time, a real factor
                # in imaginary time): compare the rays
                na_, nb_ = float(np.linalg.norm(a)), float(np.linalg.norm(b))
                if na_ > 0 and nb_ > 0:
                    a, b = a / na_, b / nb_
                    ov = np.vdot(b, a)
                    if abs(ov) > 0:
                        a = a * (abs(ov) / ov)
            err = float(np.linalg.norm(a - b)) / max(1e-300, float(np.linalg.norm(b)))
            tol = 1e-5 if not ar["tdep"] else None
            if tol is not None and err > tol:
                raise V(prop, "exact-on-full-manifold", "%s: evolved state differs from expm(-u t H) psi0 by %.3e (relative)" % (what, err))
            wd.stats["full_manifold_snapshots"] += 1
            if ar["tdep"]:
                w.info.setdefault("tdep_errs", []).append(err)
                # time-dependent generator: integrator error, must be small for the small steps used here
                lim = 5e-2 if ar["order"] == "2nd" else 5e-3
                if err > lim:
                    raise V(prop, "time-dependent-accuracy", "%s: error %.3e vs fine-grid reference exceeds %.0e" % (what, err, lim))
        wd.stats["tdvp_snapshots_checked"] += 1
        return []


@e1.register
class MTdvpRelations(e1.Op):
    """Self-contained history relations of the tdvp_ worker (state carried across steps: env reuse, expmv_ncv,
    step-size adjustment): the same evolution must not depend on how it is cut into snapshots, nor on whether
    dt was adjusted internally or given already adjusted; time-dependent generators converge at the stated order."""
    name = "m_tdvp_relations"
    creates = True

    def nout(self, rec):
        return 0

    def gen(self, g):
        rng, t = g.rng, g.task
        if t.N < 2 or t.space.d ** t.N > 64:
            return None
        tdep = [round(rng.uniform(0.5, 1.5), 3), round(rng.uniform(-2, 2), 3)] if rng.random() < 0.6 else None
        T = rng.choice([0.15, 0.2, 0.3])
        return {"op": "m_tdvp_relations", "in": [], "args": {"H": gen_H(g, nparts=2), "n": reachable_charge(g), "dtype": "complex128", "T": T,
                                                            "dt": rng.choice([0.04, 0.07, 0.09, 0.11, 0.13]), "order": rng.choice(["2nd", "4th"]),
                                                            "method": rng.choice(["1site", "1site", "1site", "2site", "12site"]), "tdep": tdep, "u": [0.0, 1.0],
                                                            "precompute": rng.random() < 0.5, "kind": rng.choice(["split", "adjusted", "order"]) if tdep else rng.choice(["split", "adjusted"])}}

    def evolve(self, task, ar, times, dt):
        psi = init_state(task, dict(ar, full=True), full=True)
        u = complex(*ar["u"])
        if ar["tdep"]:
            H0, H0d, H1, H1d, f = h_of_t(task, ar["H"], ar["tdep"])
            H = lambda t: [H0, f(t) * H1]     # noqa: E731
        else:
            H, _ = build_H(task, ar["H"])
        kw = {"opts_svd": {"tol": 1e-14, "D_total": 4096}} if ar["method"] != "1site" else {}
        outs = list(mps.tdvp_(psi, H, times=tuple(times), dt=dt, u=u, method=ar["method"], order=ar["order"], normalize=False, precompute=ar["precompute"], **kw))
        return dense_state(task, psi), outs

    def run(self, task, rec, ins):
        try:
            return self._run(task, rec, ins)
        except KrylovStepCap:
            core.known_hit("K-C10-expmv-stagnation")
            return []

    def _run(self, task, rec, ins):
        ar = rec["args"]
        wd = core.current_world()
        T, dt = ar["T"], ar["dt"]
        core.current_world().reseed(0, rec["id"])
        a, outs_a = self.evolve(task, ar, (0, T), dt)
        if getattr(wd, "generating", False):
            return []
        prop = "C10"
        what = "tdvp relation '%s' (method %s, order %s, dt=%s, T=%s, tdep=%s)" % (ar["kind"], ar["method"], ar["order"], dt, T, ar["tdep"])
        na = float(np.linalg.norm(a))
        if ar["kind"] == "adjusted":
            # dt is adjusted down to ds so that an integer number of steps fits: giving ds directly is the same evolution
            ds = outs_a[-1].dt
            core.current_world().reseed(0, rec["id"])
            b, _ = self.evolve(task, ar, (0, T), ds)
            if float(np.linalg.norm(a - b)) > 1e-9 * na:
                raise V(prop, "relation-adjusted-dt", "%s: evolution with dt=%r (adjusted to %r) differs from evolution with dt=%r by %.3e" % (what, dt, ds, ds, float(np.linalg.norm(a - b)) / na))
        elif ar["kind"] == "split":
            # same step size, different snapshot grids (the worker carries env / Krylov sizes across snapshots)
            ds = outs_a[-1].dt
            steps = outs_a[-1].steps
            if steps < 2:
                return []
            k = steps // 2
            core.current_world().reseed(0, rec["id"])
            b, _ = self.evolve(task, ar, (0, k * ds, T), ds * (1 + 1e-9))
            if float(np.linalg.norm(a - b)) > 1e-8 * na:
                raise V(prop, "relation-snapshot-grid", "%s: one snapshot vs two snapshots with the same steps differ by %.3e" % (what, float(np.linalg.norm(a - b)) / na))
        else:
            # convergence order for a time-dependent generator: halving the step must shrink the error
            H0, H0d, H1, H1d, f = h_of_t(task, ar["H"], ar["tdep"])
            core.current_world().reseed(0, rec["id"])
            psi0 = dense_state(task, init_state(task, dict(ar, full=True), full=True))
            n = 600
            h = T / n
            ref = psi0
            for k in range(n):
                ref = scipy.linalg.expm(-1j * h * (H0d + f((k + 0.5) * h) * H1d)) @ ref
            steps = outs_a[-1].steps
            core.current_world().reseed(0, rec["id"])
            b, outs_b = self.evolve(task, ar, (0, T), outs_a[-1].dt / 2 * (1 + 1e-9))
            ea = float(np.linalg.norm(a - ref)) / na
            eb = float(np.linalg.norm(b - ref)) / na
            wd.stats["order_measurements"] += 1
            floor = 2e-6 if ar["order"] == "2nd" else 2e-7     # below: reference / solver tolerance, no statement possible
            if ea > floor and eb > floor / 4:
                ratio = ea / eb
                need = 2.5 if ar["order"] == "2nd" else 6.0      # nominal 4 and 16
                wd.stats["order_ratios_asserted"] += 1
                if ratio < need:
                    raise V(prop, "convergence-order", "%s: err(dt)=%.3e, err(dt/2)=%.3e, ratio %.2f below %.1f (nominal %d)" % (what, ea, eb, ratio, need, 4 if ar["order"] == "2nd" else 16))
        wd.stats["tdvp_relations_checked"] += 1
        return []


# ----------------------------------------------------------------------------------------------------------
# variational compression (C06)
# ----------------------------------------------------------------------------------------------------------

@e1.register
class MCompression(e1.Op):
    """compression_ as a stepped worker inside one op: observers look at psi between sweeps, the run may be
    cancelled after any yield; without truncation the result reproduces the exact product."""
    name = "m_compression"
    creates = True

    def gen(self, g):
        a = e2.pick(g, lambda v, sh: sh is not None and v.nr_phys == 2 and v.pC is None)
        if a is None:
            return None
        va = g.val(a)
        b = e2.pick(g, lambda v, sh: sh is not None and v.nr_phys == 1 and v.pC is None and e2.applies_to(va, v) and max(v.get_bond_dimensions()) * max(va.get_bond_dimensions()) <= 36)
        if b is None:
            return None
        return {"op": "m_compression", "in": [a, b], "args": {"method": g.rng.choice(["1site", "2site"]), "sweeps": g.rng.randint(2, 6), "cancel_after": g.rng.choice([None, None, 1, 2]),
                                                             "observe": g.rng.random() < 0.6, "normalize": g.rng.random() < 0.5}}

    def run(self, task, rec, ins):
        ar = rec["args"]
        H, psi0 = ins
        # start from the zipper guess at full bond dimension (no truncation anywhere)
        psi = mps.zipper(H, psi0, opts_svd={"tol": 1e-14}, normalize=ar["normalize"])
        kw = {"opts_svd": {"tol": 1e-14, "D_total": 4096}} if ar["method"] == "2site" else {}
        gen = mps.compression_(psi, [H, psi0], method=ar["method"], max_sweeps=ar["sweeps"], iterator=True, normalize=ar["normalize"], **kw)
        wd = core.current_world()
        n = 0
        for out in gen:
            n += 1
            if ar["observe"]:
                # the caller looks at psi between sweeps: copies it, measures it
                psi.copy().norm()
                mps.measure_overlap(psi, psi)
                wd.stats["observer_steps"] += 1
            if ar["cancel_after"] is not None and n >= ar["cancel_after"]:
                gen.close()                     # F8: the iterator is abandoned
                wd.stats["fault_cancel"] += 1
                break
        return [psi]

    def shadow(self, task, rec, sins, outs, ins=None):
        N = task.N
        A = mps_dense.as_matrix(sins[0], N)
        r = (A @ sins[1].reshape(-1)).reshape(sins[1].shape)
        if rec["args"]["normalize"]:
            nr = float(np.linalg.norm(r.reshape(-1)))
            if nr < 1e-12:
                return [None]
            r = r / nr
        return [r]
