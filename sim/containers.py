"""Introspection of container objects (MPS/MPO, PEPS, lattices, environments): the tensors they hold and their metadata."""
from .core import yastn

import yastn.tn.mps as mps
import yastn.tn.fpeps as fpeps


def parts(v, depth=0):
    """{name: Tensor} of the tensors reachable from a live object (a Tensor is its own single part)."""
    if isinstance(v, yastn.Tensor):
        return {"": v}
    out = {}
    if depth > 3:
        return out
    if isinstance(v, mps.MpsMpoOBC):
        for k, t in v.A.items():
            for kk, tt in parts(t, depth + 1).items():
                out["A%r%s" % (k, kk)] = tt
    elif isinstance(v, fpeps.DoublePepsTensor):
        out["bra"], out["ket"] = v.bra, v.ket
        if v.op is not None:
            out["op"] = v.op
    elif isinstance(v, fpeps.Lattice):          # Peps and lattice containers
        for site in v.sites():
            x = v[site]
            if x is not None:
                for kk, tt in parts(x, depth + 1).items():
                    out["%r%s" % (tuple(site), kk)] = tt
    elif isinstance(v, fpeps.EnvBoundaryMPS):
        for k, m in v._env.items():
            for kk, tt in parts(m, depth + 1).items():
                out["env%r%s" % (k, kk)] = tt
        for kk, tt in parts(v.psi, depth + 1).items():
            out["psi" + kk] = tt
    elif isinstance(v, (fpeps.EnvCTM, fpeps.EnvBP)):
        for site in v.sites():
            loc = v[site]
            for f in loc.fields():
                t = getattr(loc, f)
                if isinstance(t, yastn.Tensor):
                    out["env%r.%s" % (tuple(site), f)] = t
        psi = v.psi.ket if hasattr(v.psi, "ket") else v.psi
        for kk, tt in parts(psi, depth + 1).items():
            out["psi" + kk] = tt
    elif type(v).__name__ == "Worker" and hasattr(v, "psi"):      # stepped dmrg_/tdvp_ worker (sim/e2w.py): the state it evolves in place
        for kk, tt in parts(v.psi, depth + 1).items():
            out["psi." + kk] = tt
    elif hasattr(v, "fields") and callable(v.fields):       # environment dataclasses
        for f in v.fields():
            t = getattr(v, f)
            if isinstance(t, yastn.Tensor):
                out["." + f] = t
    return out


def meta_of(v):
    if isinstance(v, mps.MpsMpoOBC):
        return ["MpsMpoOBC", v.N, v.nr_phys, v.pC, complex(v.factor), sorted(repr(k) for k in v.A)]
    if isinstance(v, fpeps.DoublePepsTensor):
        return ["DoublePepsTensor", list(v.trans), sorted((k, list(c)) for k, c in v.swaps.items()), v.op is not None]
    if isinstance(v, fpeps.Lattice):
        return [type(v).__name__, list(v.dims), str(v.boundary)]
    if isinstance(v, (fpeps.EnvBoundaryMPS, fpeps.EnvCTM, fpeps.EnvBP)):
        return [type(v).__name__, list(v.dims)]
    if type(v).__name__ == "Worker" and hasattr(v, "psi"):
        return ["Worker", v.kind, v.steps]
    return None
