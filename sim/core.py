"""Simulator core: seeded streams, canonical digests, cache seam (SimLRU), LAPACK seam,
RNG seam, World (event log, inner pre-emption points, fault plan / fault drawing).

Nothing here edits /repo: all seams are module-global rebinding from outside.
"""
import collections
import dataclasses
import functools
import hashlib
import random
import sys
import types

from . import env  # noqa: F401  (pins BLAS, selects tree)

import numpy as np

yastn = env.import_yastn()
from yastn.backend import backend_np  # noqa: E402
from yastn.tensor import _control_lru  # noqa: E402
import scipy.linalg  # noqa: E402
import scipy.sparse.linalg  # noqa: E402


# ----------------------------------------------------------------------------
# seeded streams
# ----------------------------------------------------------------------------

def stream(seed, *names):
    """Named PRNG stream derived from one integer (SHA-256)."""
    h = hashlib.sha256(("%d|" % seed + "|".join(str(n) for n in names)).encode()).digest()
    return random.Random(int.from_bytes(h[:16], "big"))


def subseed(seed, *names):
    h = hashlib.sha256(("%d|" % seed + "|".join(str(n) for n in names)).encode()).digest()
    return int.from_bytes(h[:8], "big")


# ----------------------------------------------------------------------------
# canonical forms and digests
# ----------------------------------------------------------------------------

def canon(x, _depth=0):
    """Canonical, hashable, identity-free description of a value (deep)."""
    if _depth > 60:
        raise RecursionError("canon depth")
    d = _depth + 1
    if x is None or isinstance(x, (bool, str, bytes)):
        return x
    if isinstance(x, (int, np.integer)):
        return ("i", int(x))
    if isinstance(x, (float, np.floating)):
        # scalars inside structures compare by value, as lru_cache keys do (0 == 0.0 == -0.0);
        # bulk data (ndarray) is compared bit for bit below
        xf = float(x)
        if xf == int(xf) if np.isfinite(xf) else False:
            return ("i", int(xf))
        return ("f", np.float64(x).tobytes().hex())
    if isinstance(x, (complex, np.complexfloating)):
        return ("c", np.complex128(x).tobytes().hex())
    if isinstance(x, np.bool_):
        return bool(x)
    if isinstance(x, np.ndarray):
        return ("nd", str(x.dtype), x.shape, hashlib.sha256(np.ascontiguousarray(x).tobytes()).hexdigest())
    if isinstance(x, yastn.Tensor):
        return ("T",) + tensor_canon(x)
    if isinstance(x, tuple):
        tag = type(x).__name__ if hasattr(x, "_fields") else "t"
        return (tag,) + tuple(canon(v, d) for v in x)
    if isinstance(x, list):
        return ("l",) + tuple(canon(v, d) for v in x)
    if isinstance(x, dict):
        items = [(canon(k, d), canon(v, d)) for k, v in x.items()]
        try:
            items.sort()
        except TypeError:
            items.sort(key=repr)
        return ("d",) + tuple(items)
    if isinstance(x, (set, frozenset)):
        items = [canon(v, d) for v in x]
        items.sort(key=repr)
        return ("s",) + tuple(items)
    if isinstance(x, (slice, range)):
        return (type(x).__name__, x.start, x.stop, x.step)
    if isinstance(x, types.ModuleType):
        return ("mod", x.__name__)
    if isinstance(x, type):
        return ("cls", x.__module__, x.__qualname__)
    if dataclasses.is_dataclass(x):
        return ("dc", type(x).__name__) + tuple((f.name, canon(getattr(x, f.name), d)) for f in dataclasses.fields(x))
    if callable(x):
        return ("fn", getattr(x, "__module__", ""), getattr(x, "__qualname__", repr(type(x))))
    if hasattr(x, "__dict__"):
        return ("obj", type(x).__name__) + tuple((k, canon(v, d)) for k, v in sorted(vars(x).items()))
    return ("repr", repr(x))


def config_canon(cfg):
    sym = cfg.sym
    return (getattr(sym, "SYM_ID", repr(sym)), canon(cfg.fermionic), cfg.default_dtype,
            cfg.default_fusion, cfg.force_fusion, cfg.tensordot_policy)


def tensor_canon(a, with_config=True):
    """Everything that makes up a tensor, bit for bit (C16 / C15 snapshots)."""
    data = a._data
    dd = ("nd", str(data.dtype), data.shape, hashlib.sha256(np.ascontiguousarray(data).tobytes()).hexdigest())
    out = (canon(a.struct), canon(a.slices), canon(a.hfs), canon(a.mfs), canon(a.trans), dd)
    if with_config:
        out = out + (config_canon(a.config),)
    return out


def digest(x):
    return hashlib.sha256(repr(canon(x)).encode()).hexdigest()[:24]


# ----------------------------------------------------------------------------
# cache seam
# ----------------------------------------------------------------------------

_CacheInfo = collections.namedtuple("CacheInfo", ["hits", "misses", "maxsize", "currsize"])

_WORLD = [None]  # current world (one per process at a time)


def current_world():
    return _WORLD[0]


def find_cache_bindings():
    """All (module, attr, object) where object is an lru_cache-like wrapper in yastn."""
    out = []
    for mname, mod in sorted(sys.modules.items()):
        if mod is None or not (mname == "yastn" or mname.startswith("yastn.")):
            continue
        # only modules that define or import-by-name cached functions
        for attr, obj in sorted(vars(mod).items()):
            if callable(obj) and hasattr(obj, "cache_info") and hasattr(obj, "__wrapped__") and not isinstance(obj, type):
                out.append((mod, attr, obj))
    return out


_ORIGINAL = {}   # (modname, attr) -> raw function, default maxsize
_CANONICAL = None  # the set of bindings found at first scan, restricted to private/cached names


def _scan_once():
    global _CANONICAL
    if _CANONICAL is not None:
        return _CANONICAL
    found = find_cache_bindings()
    binds = []
    for mod, attr, obj in found:
        raw = obj.__wrapped__
        # star-imports re-export public names only; cached functions are private, but keep any
        ms = obj.cache_info().maxsize if hasattr(obj, "cache_info") else 1024
        binds.append((mod.__name__, attr, raw, ms))
    _CANONICAL = binds
    return binds


class SimLRU:
    """Pure-Python LRU table with lru_cache's contract, owned by the simulator.

    Every call is an inner pre-emption point of the world; values are digested at
    insertion and re-digested at every hit / eviction / clear / end of run (O2);
    on a hit the value can be recomputed with the raw function and compared (O3).
    """

    def __init__(self, raw, maxsize, name=None, hooks=True):
        self.__wrapped__ = raw
        self.maxsize = maxsize
        self.name = name or raw.__name__
        self.table = collections.OrderedDict()  # key -> [value, digest, inserted_by]
        self.hits = 0
        self.misses = 0
        self.hooks = hooks
        functools.update_wrapper(self, raw, updated=())
        self.__wrapped__ = raw

    # lru_cache contract -----------------------------------------------------
    def cache_info(self):
        return _CacheInfo(self.hits, self.misses, self.maxsize, len(self.table))

    def cache_clear(self):
        w = _WORLD[0]
        if w is not None and self.hooks:
            for key, ent in self.table.items():
                w.check_entry(self, key, ent, "clear")
                w.note_removed(self, key)
        self.table.clear()
        self.hits = 0
        self.misses = 0

    def cache_parameters(self):
        return {"maxsize": self.maxsize, "typed": False}

    def __call__(self, *args, **kwargs):
        w = _WORLD[0] if self.hooks else None
        if w is None and self.maxsize == 0:
            self.misses += 1
            return self.__wrapped__(*args, **kwargs)
        key = args if not kwargs else args + (("__kw__",) + tuple(sorted(kwargs.items())),)
        if w is not None:
            w.lookup_point(self, key)
        if self.maxsize == 0:
            self.misses += 1
            return self.__wrapped__(*args, **kwargs)
        ent = self.table.get(key)
        if ent is not None:
            self.hits += 1
            self.table.move_to_end(key)
            if w is not None:
                w.on_hit(self, key, ent, args, kwargs)
            return ent[0]
        self.misses += 1
        val = self.__wrapped__(*args, **kwargs)
        if w is not None:
            ent = [val, w.value_digest(val), w.cur_task]
            w.on_insert(self, key)
        else:
            ent = [val, None, None]
        self.table[key] = ent
        if self.maxsize is not None and len(self.table) > self.maxsize:
            okey, oent = self.table.popitem(last=False)
            if w is not None:
                w.check_entry(self, okey, oent, "evict")
                w.note_removed(self, okey)
                w.stats["lru_evictions"] += 1
        return val

    # simulator-side operations ------------------------------------------------
    def drop(self, key):
        ent = self.table.pop(key, None)
        return ent


class CacheSeam:
    """Installs one of three cache implementations on every binding of every cached fn."""

    def __init__(self):
        self.binds = _scan_once()
        self.impl = None
        self.tables = {}  # raw function -> current primary table object

    def install(self, impl, maxsize="default"):
        """impl: 'real' | 'instrumented' | 'off'."""
        self.impl = impl
        by_raw = {}
        for modname, attr, raw, ms in self.binds:
            if raw not in by_raw:
                m = ms if maxsize == "default" else maxsize
                if impl == "real":
                    by_raw[raw] = functools.lru_cache(m)(raw)
                elif impl == "instrumented":
                    by_raw[raw] = SimLRU(raw, m)
                elif impl == "off":
                    by_raw[raw] = SimLRU(raw, 0, hooks=False)
                else:
                    raise ValueError(impl)
            setattr(sys.modules[modname], attr, by_raw[raw])
        self.tables = by_raw
        if impl == "instrumented":
            _control_lru.lru_cache = lambda maxsize=128: (lambda raw: SimLRU(raw, maxsize))
        elif impl == "off":
            _control_lru.lru_cache = lambda maxsize=128: (lambda raw: SimLRU(raw, 0, hooks=False))
        else:
            _control_lru.lru_cache = functools.lru_cache

    def live_tables(self):
        """All distinct table objects currently bound anywhere (incl. stale aliases)."""
        seen = {}
        for modname, attr, raw, ms in self.binds:
            obj = getattr(sys.modules[modname], attr)
            seen[id(obj)] = obj
        return list(seen.values())

    def clear_all(self):
        for t in self.live_tables():
            t.cache_clear()


# ----------------------------------------------------------------------------
# LAPACK seam
# ----------------------------------------------------------------------------

class InjectedLinAlgError(scipy.linalg.LinAlgError):
    pass


class InjectedArpackError(scipy.sparse.linalg.ArpackError):
    def __init__(self, msg="injected"):
        RuntimeError.__init__(self, msg)


class _LinalgProxy:
    def __init__(self, real):
        self._real = real

    def __getattr__(self, name):
        return getattr(self._real, name)

    def svd(self, a, *args, **kwargs):
        w = _WORLD[0]
        drv = kwargs.get("lapack_driver", "gesdd")
        kind = "svd_" + drv + ("" if kwargs.get("compute_uv", True) else "_vals")
        if w is not None and w.driver_point(kind, a):
            raise InjectedLinAlgError("injected failure of %s" % kind)
        return self._real.svd(a, *args, **kwargs)

    def eigh(self, a, *args, **kwargs):
        w = _WORLD[0]
        if w is not None and w.driver_point("eigh_scipy", a):
            raise InjectedLinAlgError("injected failure of eigh")
        return self._real.eigh(a, *args, **kwargs)


class _SparseLinalgProxy:
    def __init__(self, real):
        self._real = real

    def __getattr__(self, name):
        return getattr(self._real, name)

    def svds(self, a, *args, **kwargs):
        w = _WORLD[0]
        kind = "svds_" + kwargs.get("solver", "arpack")
        if w is not None and w.driver_point(kind, a):
            raise InjectedArpackError("injected failure of %s" % kind)
        return self._real.svds(a, *args, **kwargs)


class _SparseProxy:
    def __init__(self, real):
        self._real = real
        self.linalg = _SparseLinalgProxy(real.linalg)

    def __getattr__(self, name):
        return getattr(self._real, name)


class _ScipyProxy:
    def __init__(self, real):
        self._real = real
        self.linalg = _LinalgProxy(real.linalg)
        self.sparse = _SparseProxy(real.sparse)

    def __getattr__(self, name):
        return getattr(self._real, name)


_REAL_SCIPY = backend_np.scipy

# RNG seam of the dependency: scipy.sparse.linalg.svds (partial-SVD policies; rank-1 step of the EAT truncation in fpeps) draws its ARPACK start
# vector from OS entropy when no generator is passed.  The simulator owns that source: the generator is derived from (world seed, task, op, call
# ordinal inside the op), so an op's result is a function of its identity, not of the process history, and replays are exact.
_ORIG_SVDS = _REAL_SCIPY.sparse.linalg.svds


def _seeded_svds(A, *args, **kwargs):
    if kwargs.get("rng") is None and kwargs.get("random_state") is None and kwargs.get("v0") is None and len(args) < 5:
        w = _WORLD[0]
        if w is not None:
            w.krng = getattr(w, "krng", 0) + 1
            w.stats["rng_svds_start_vectors_scripted"] += 1
            sd = subseed(w.seed, "svds", w.cur_task, w.cur_uid, w.krng)
        else:
            sd = 0
        kwargs["rng"] = np.random.default_rng(sd)
    return _ORIG_SVDS(A, *args, **kwargs)


_REAL_SCIPY.sparse.linalg.svds = _seeded_svds
_SCIPY_PROXY = _ScipyProxy(_REAL_SCIPY)


def install_lapack_proxy(on=True):
    backend_np.scipy = _SCIPY_PROXY if on else _REAL_SCIPY


# ----------------------------------------------------------------------------
# World
# ----------------------------------------------------------------------------

CACHE_SIZES = (0, 1, 2, 3, 8, 1024)


class Violation(Exception):
    def __init__(self, prop, oracle, detail, **where):
        super().__init__("%s/%s: %s" % (prop, oracle, detail))
        self.prop = prop
        self.oracle = oracle
        self.detail = detail
        self.where = where

    def as_dict(self):
        d = {"property": self.prop, "oracle": self.oracle, "detail": str(self.detail)[:2000]}
        d.update(self.where)
        return d


class World:
    """One simulated process: owns every seam, the event log and the fault plan.

    Faults at inner pre-emption points are addressed by (task, op uid, k) with k the
    index of the pre-emption point inside that op, so that they survive removal of
    other ops during minimisation.

    mode 'draw': faults are drawn from the `faults` stream with the rates in `fc`.
    mode 'plan': faults are taken from `plan` ({addr: action}); nothing is drawn.
    """

    def __init__(self, seed, cache_impl="real", maxsize="default", fc=None, plan=None,
                 lapack=True, prop="C16", check_hits=False, watch_entries=True):
        self.seed = seed
        self.prop = prop
        self.fc = fc or {}
        self.mode = "plan" if plan is not None else "draw"
        self.plan = dict(plan or {})
        self.frng = stream(seed, "faults")
        self.inner_fired = {}      # addr -> action (log; replay plan)
        self.stats = collections.Counter()
        self.probes = collections.Counter()
        self.cur_task = None
        self.cur_uid = None
        self.k = 0                  # inner point index inside current op
        self.kp = 0                 # primary LAPACK driver calls inside current op
        self.ks = 0                 # secondary (fallback) driver calls inside current op
        self.seq = 0                # global logical clock
        self.check_hits = check_hits
        self.watch_entries = watch_entries
        self.count_lookups_when_off = False
        self.removed = {}           # (table name, key) -> reason (for 'effective' accounting)
        self.violations = []        # collected Violation objects raised from inside seams
        self.task_tags = {}         # task id -> tags (sym, fermionic, ...) for cross-twin probes
        self.in_callback = 0
        self.seam = CacheSeam()
        self.seam.install(cache_impl, maxsize)
        self.cache_impl = cache_impl
        install_lapack_proxy(lapack)
        _WORLD[0] = self

    # -- lifecycle -------------------------------------------------------------
    def close(self):
        """End of run: re-digest every cached value still present (O2)."""
        if self.cache_impl == "instrumented" and self.watch_entries:
            for t in self.seam.live_tables():
                if isinstance(t, SimLRU) and t.hooks:
                    for key, ent in t.table.items():
                        self.check_entry(t, key, ent, "end")
        _WORLD[0] = None
        install_lapack_proxy(False)

    def begin_op(self, task, uid):
        self.cur_task = task
        self.cur_uid = uid
        self.k = 0
        self.kp = 0
        self.ks = 0
        self.krng = 0
        self.seq += 1

    def addr(self):
        a = "%s/%s/%d" % (self.cur_task, self.cur_uid, self.k)
        self.k += 1
        return a

    # -- digests of cached values ---------------------------------------------
    def value_digest(self, val):
        if not self.watch_entries:
            return None
        return digest(val)

    def check_entry(self, table, key, ent, when):
        if ent[1] is None or not self.watch_entries:
            return
        self.stats["entry_redigests"] += 1
        dg = digest(ent[0])
        if dg != ent[1]:
            v = Violation("C16", "O2-cached-entry-altered",
                          "table %s: cached value changed after insertion (checked at %s); key digest %s"
                          % (table.name, when, digest(key)), table=table.name, task=self.cur_task, uid=self.cur_uid)
            self.violations.append(v)
            ent[1] = dg  # report once

    def note_removed(self, table, key):
        self.removed[(table.name, key)] = True

    def on_insert(self, table, key):
        self.stats["inserts"] += 1
        if self.removed.pop((table.name, key), None):
            self.stats["refill_after_disturbance"] += 1

    def on_hit(self, table, key, ent, args, kwargs):
        self.stats["hits"] += 1
        self.check_entry(table, key, ent, "hit")
        if ent[2] is not None and ent[2] != self.cur_task:
            self.stats["cross_task_hits"] += 1
            ta, tb = self.task_tags.get(ent[2]), self.task_tags.get(self.cur_task)
            if ta and tb:
                for name in ta:
                    if ta[name] != tb.get(name):
                        self.probes["cross_%s_hit" % name] += 1
                        self.probes["cross_%s_hit:%s" % (name, table.name)] += 1
        if self.in_callback:
            self.probes["hit_inside_callback"] += 1
        if self.check_hits:
            self.stats["hit_recomputations"] += 1
            fresh = table.__wrapped__(*args, **kwargs)
            if canon(fresh) != canon(ent[0]):
                v = Violation("C16", "O3-hit-differs-from-recomputation",
                              "table %s: cached value differs from recomputation with the undecorated function"
                              % table.name, table=table.name, task=self.cur_task, uid=self.cur_uid,
                              inserted_by=ent[2])
                self.violations.append(v)

    # -- inner pre-emption points -----------------------------------------------
    def lookup_point(self, table, key):
        """Called by SimLRU before every lookup."""
        self.stats["lookups"] += 1
        a = self.addr()
        act = None
        if self.mode == "plan":
            act = self.plan.get(a)
        else:
            fc = self.fc
            r = self.frng.random()
            p = fc.get("p_lookup", 0.0)
            if p and r < p:
                kinds = fc.get("lookup_kinds") or ["evict"]
                kind = kinds[self.frng.randrange(len(kinds))]
                if kind == "resize":
                    act = ["resize", CACHE_SIZES[self.frng.randrange(len(CACHE_SIZES))]]
                else:
                    act = [kind]
        if act is None:
            return
        self.apply_cache_fault(act, table, key)
        self.inner_fired[a] = act

    def apply_cache_fault(self, act, table=None, key=None):
        kind = act[0]
        self.stats["fault_" + kind] += 1
        if kind == "evict":
            if table is not None and key in table.table:
                ent = table.drop(key)
                self.check_entry(table, key, ent, "evict")
                self.note_removed(table, key)
                self.stats["fault_evict_present"] += 1
        elif kind == "clear_table":
            if table is not None:
                table.cache_clear()
        elif kind == "clear_all":
            yastn.clear_cache()
        elif kind == "clear_all_bindings":
            self.seam.clear_all()
        elif kind == "resize":
            # through yastn's own rebinding code (stale aliases included)
            if self.cache_impl == "instrumented":
                for t in self.seam.live_tables():
                    if isinstance(t, SimLRU):
                        for k2, ent in t.table.items():
                            self.check_entry(t, k2, ent, "resize")
                            self.note_removed(t, k2)
            yastn.set_cache_maxsize(act[1])
        else:
            raise ValueError("unknown cache fault %r" % (act,))

    def driver_point(self, kind, a):
        """Called by the LAPACK proxy before every driver call. True => fail it."""
        self.stats["driver_calls"] += 1
        self.stats["driver_" + kind] += 1
        ad = self.addr()
        primary = kind in ("svd_gesdd", "svd_gesdd_vals", "eigh_scipy", "svds_arpack")
        # second address space: ordinal of the primary / secondary driver call inside the current op,
        # independent of cache lookups and of earlier failures ("fail the primary driver on block j")
        if primary:
            pad = "%s/%s/P%d" % (self.cur_task, self.cur_uid, self.kp)
            self.kp += 1
        else:
            pad = "%s/%s/S%d" % (self.cur_task, self.cur_uid, self.ks)
            self.ks += 1
        act = None
        if self.mode == "plan":
            act = self.plan.get(ad) or self.plan.get(pad)
            if act is not None and pad in self.plan:
                ad = pad
        else:
            fc = self.fc
            p = fc.get("p_lapack", 0.0) if primary else fc.get("p_lapack2", 0.0)
            if p and self.frng.random() < p:
                act = ["lapack_fail", kind]
        if act is None:
            return False
        if act[0] != "lapack_fail":
            return False
        self.inner_fired[pad if self.mode != "plan" else ad] = ["lapack_fail", kind]
        self.stats["fault_lapack_fail"] += 1
        self.stats["fault_lapack_fail_" + kind] += 1
        shp = getattr(a, "shape", None)
        if shp is not None and len(shp) == 2 and shp[0] != shp[1]:
            self.probes["fallback_on_rectangular_block"] += 1
        if np.iscomplexobj(a):
            self.probes["fallback_on_complex_block"] += 1
        return True

    # -- RNG seam ----------------------------------------------------------------
    def reseed(self, *names):
        backend_np.rng["rng"] = np.random.default_rng(subseed(self.seed, "data", *names))

    def take_violation(self):
        if self.violations:
            return self.violations[0]
        return None


class ScriptedRNG:
    """Stands in for numpy Generator behind backend.rand: returns scripted uniforms."""

    def __init__(self, values, fallback_seed=0):
        self.values = list(values)
        self.i = 0
        self.fallback = np.random.default_rng(fallback_seed)
        self.drawn = []

    def _next(self):
        if self.i < len(self.values):
            v = self.values[self.i]
        else:
            v = float(self.fallback.random())
        self.i += 1
        self.drawn.append(v)
        return v

    def random(self, size=None, *a, **k):
        if size is None:
            return self._next()
        n = int(np.prod(size))
        return np.array([self._next() for _ in range(n)], dtype=np.float64).reshape(size)

    def integers(self, low, high=None, size=None, **k):
        return self.fallback.integers(low, high, size=size)

    def __getattr__(self, name):
        return getattr(self.fallback, name)


def known_hit(kid):
    """A listed, unrepaired finding was reproduced inside a run: counted, the run goes on."""
    w = _WORLD[0]
    if w is not None:
        w.stats["known:" + kid] += 1
