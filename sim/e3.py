"""E3 — the PEPS world: finite lattices (<= 6 sites), in-place gate histories, dense
Jordan-Wigner reference in the PEPS fermionic order (= geometry.sites() order).

Dense layout: one axis per (site, layer) in fermionic order (sys0, anc0, sys1, anc1, ...);
ancilla axes have dimension 1 for pure states and dimension d for purifications.  The model treats
that chain of 2N legs as the Jordan-Wigner chain: operators act on system legs (positions 2k).
Ops are registered in the shared registry (prefix 'p_') and run through e1.execute.
"""
import itertools

import numpy as np
import scipy.linalg

from . import core, e1, e2
from .core import yastn
from .models import jw
from .models.group import Sym

import yastn.tn.fpeps as fpeps
import yastn.tn.mps as mps

V = core.Violation

LATTICES = [(1, 2), (2, 1), (1, 3), (3, 1), (2, 2), (2, 2), (2, 3), (3, 2), (1, 4)]
FAMILIES3 = {"SpinlessFermions": ["Z2", "U1"], "SpinfulFermions": ["Z2", "U1", "U1xU1", "U1xU1xZ2"], "Spin12": ["dense", "Z2", "U1"]}


class Task3(e1.Task):
    def __init__(self, tid, cfgspec):
        self.id = tid
        self.cfgspec = dict(cfgspec)
        self.sym = Sym(cfgspec["sym"])
        self.universe = []
        self.slots, self.shadows, self.extra_ulegs = {}, {}, {}
        self.next_slot = 0
        self.space = e2.space_of(self)
        self.cfg = self.space.cfg
        self.dims = tuple(cfgspec["dims"])
        self.geometry = fpeps.SquareLattice(dims=self.dims, boundary=cfgspec.get("boundary", "obc"))
        self.sites = list(self.geometry.sites())
        self.N = len(self.sites)
        self.index = {tuple(s): i for i, s in enumerate(self.sites)}


def task_from_spec(spec):
    return Task3(spec["id"], spec["config"])


# ---- dense state of a PEPS ----------------------------------------------------------------------------------

def dense_peps(task, psi, purified):
    """Amplitude array with axes (sys0, anc0, sys1, anc1, ...) in fermionic order."""
    sp = task.space
    t = psi.to_tensor()
    if t.ndim == 2 * task.N:
        lg = {}
        for k in range(task.N):
            lg[2 * k] = sp.leg
            if purified:
                lg[2 * k + 1] = sp.leg.conj()
        return t.to_numpy(legs=lg)
    if t.ndim == task.N:
        return t.to_numpy(legs={k: sp.leg for k in range(task.N)}).reshape([x for k in range(task.N) for x in (sp.d, 1)])
    raise ValueError("to_tensor returned rank %d for %d sites" % (t.ndim, task.N))


class PShadow:
    """Dense model state of a PEPS: amplitude array (see layout above) + ancilla spaces."""

    def __init__(self, arr, purified, anc_t):
        self.arr = arr
        self.purified = purified
        self.anc_t = anc_t          # per site: list of charges of the ancilla basis states (dim 1 for pure states)

    def copy(self):
        return PShadow(self.arr.copy(), self.purified, self.anc_t)


def lattice_product(task, sh, sites_idx, mats, charges):
    """Dense operator on the N system legs (fermionic order = geometry.sites() order): product (written order, last
    acts first) of on-site matrices with Jordan-Wigner strings through the system legs in between.  Ancilla legs are
    spectators: to_tensor() returns the state in the fermionic order sys_0 .. sys_{N-1} anc_{N-1} .. anc_0."""
    terms = [(k, M, n) for k, M, n in zip(sites_idx, mats, charges)]
    return jw.product([task.space.site] * task.N, task.space.fermionic, terms)


def apply_to_state(task, M, arr):
    """Apply a d^N x d^N system operator to the amplitude array with axes (sys0, anc0, sys1, anc1, ...)."""
    N, d = task.N, task.space.d
    perm = list(range(0, 2 * N, 2)) + list(range(1, 2 * N, 2))
    a = np.transpose(arr, perm)
    shp = a.shape
    a = (M @ a.reshape(d ** N, -1)).reshape(shp)
    return np.transpose(a, np.argsort(perm))


def two_site_operator_on_lattice(task, sh, T4, s0, s1):
    """A two-site operator given as a 4-leg array T4[k0,b0,k1,b1] in the fkron(A, B, sites=(0,1)) convention
    (site '0' first in the operator's own fermionic order), placed with its site 0 on lattice site s0 and site 1 on s1:
    sum_k A_k(s0) B_k(s1) as operator products.  Decomposed over matrix units."""
    sp = task.space
    d = sp.d
    ts = sp.site.state_t
    sym = sp.sym
    dim = d ** task.N
    M = np.zeros((dim, dim), dtype=complex)
    cache = {}
    for i, j, k, l in itertools.product(range(d), repeat=4):
        c = T4[i, j, k, l]
        if c == 0:
            continue
        nA = sym.sub(ts[i], ts[j]) if sym.nsym else ()
        nB = sym.sub(ts[k], ts[l]) if sym.nsym else ()
        # fkron puts a swap between operator B's charge and the bra leg (index j) of A: undo it to get the coefficient
        sg = jw.sign(sym, sp.fermionic, nB, ts[j]) if sym.nsym else 1
        Eij = np.zeros((d, d))
        Eij[i, j] = 1
        Ekl = np.zeros((d, d))
        Ekl[k, l] = 1
        key = (i, j, k, l)
        M = M + c * sg * lattice_product(task, sh, [s0, s1], [Eij, Ekl], [nA, nB])
    return M


def gate_to_T4(G0, G1, space):
    """Recombine the two halves of a decomposed nn gate into the 4-leg array [k0,b0,k1,b1]."""
    G = yastn.tensordot(G0, G1, axes=(2, 2))      # k0 b0 k1 b1
    return G.to_numpy(legs={0: space, 1: space.conj(), 2: space, 3: space.conj()})


def compare_state(task, psi, sh, prop, what, tol=1e-10):
    got = dense_peps(task, psi, sh.purified)
    ref = sh.arr
    if got.shape != ref.shape:
        raise V(prop, "shape", "%s: dense shape %s, model %s" % (what, got.shape, ref.shape))
    sc = max(1.0, float(np.max(np.abs(ref))))
    if not np.allclose(got, ref, rtol=0, atol=tol * sc):
        raise V(prop, "state", "%s: to_tensor() differs from the dense model state by %.3e (scale %.2e)" % (what, float(np.max(np.abs(got - ref))), sc))


# ---- ops ---------------------------------------------------------------------------------------------------------------

def is_peps(v):
    return isinstance(v, fpeps.Peps)


def max_bond(psi):
    try:
        return max(psi.get_bond_dimensions().values() or [1])
    except Exception:  # noqa: BLE001
        return 1


def pick_peps(g, max_D=None):
    if max_D is not None:
        c = [s for s, v in g.task.slots.items() if is_peps(v) and g.task.shadows.get(s) is not None and max_bond(v) <= max_D]
        return g.rng.choice(c[-3:]) if c else None
    return _pick_peps(g)


def _pick_peps(g):
    c = [s for s, v in g.task.slots.items() if is_peps(v) and g.task.shadows.get(s) is not None]
    if not c:
        return None
    return g.rng.choice(c[-3:])


@e1.register
class PInit(e1.Op):
    name = "p_init"
    readback = True

    def gen(self, g):
        t = g.task
        sp = t.space
        purified = g.rng.random() < 0.3 and sp.d ** (2 * t.N) <= 4096
        occ = [g.rng.randrange(sp.d) for _ in range(t.N)]
        return {"op": "p_init", "in": [], "args": {"purified": purified, "occ": occ}}

    def run(self, task, rec, ins):
        ar, sp = rec["args"], task.space
        if ar["purified"]:
            vec = sp.table["I"]
            return [fpeps.product_peps(task.geometry, vec)]
        vectors = {s: sp.vec(ar["occ"][i]) for i, s in enumerate(task.sites)}
        return [fpeps.product_peps(task.geometry, vectors)]

    def shadow(self, task, rec, sins, outs, ins=None):
        ar, sp = rec["args"], task.space
        if ar["purified"]:
            anc_t = [list(sp.site.state_t) for _ in range(task.N)]
        else:
            anc_t = [[sp.site.state_t[ar["occ"][i]]] for i in range(task.N)]
        arr = dense_peps(task, outs[0], ar["purified"])
        return [PShadow(arr, ar["purified"], anc_t)]


def random_two_site_H(g, sp):
    """Hermitian two-site Hamiltonian as terms over abstract sites (0, 1)."""
    rng = g.rng
    terms = []
    f = sp.family
    if f in ("SpinlessFermions", "SpinfulFermions"):
        s_ = "" if f == "SpinlessFermions" else rng.choice("ud")
        a = round(rng.uniform(-1, 1), 3) or 0.4
        ph = round(rng.uniform(-1, 1), 3) if rng.random() < 0.4 else 0.0
        terms += [[[a, ph], [0, 1], ["cp" + s_, "c" + s_]], [[a, -ph], [1, 0], ["cp" + s_, "c" + s_]]]
        terms += [[[round(rng.uniform(-1, 1), 3), 0.0], [0, 1], ["n" + s_, "n" + s_]]]
        terms += [[[round(rng.uniform(-1, 1), 3), 0.0], [rng.choice([0, 1])], ["n" + s_]]]      # asymmetric: orientation matters
    else:
        a = round(rng.uniform(-1, 1), 3) or 0.4
        terms += [[[a, 0.0], [0, 1], ["sp", "sm"]], [[a, 0.0], [1, 0], ["sp", "sm"]], [[round(rng.uniform(-1, 1), 3), 0.0], [0, 1], ["z", "z"]]]
        terms += [[[round(rng.uniform(-1, 1), 3), 0.0], [rng.choice([0, 1])], ["z"]]]
    return terms


def random_path(task, rng, length):
    """Seeded self-avoiding nearest-neighbour walk of up to `length` sites (wraps across a cylinder's boundary)."""
    g = task.geometry
    for _ in range(20):
        path = [tuple(rng.choice(task.sites))]
        while len(path) < length:
            nxt = []
            for d in "tlbr":
                q = g.nn_site(path[-1], d)
                if q is None:
                    continue
                q = tuple(g.site2index(q))
                if q not in path and q not in nxt:
                    nxt.append(q)
            if not nxt:
                break
            path.append(rng.choice(nxt))
        if len(path) >= min(length, 2):
            return path
    return path


@e1.register
class PGate(e1.Op):
    """One apply_gate_ call.  The receiver's shadow is advanced by the dense gate."""
    name = "p_gate"
    inplace = True

    def nout(self, rec):
        return 0

    def gen(self, g):
        rng, t = g.rng, g.task
        sp = t.space
        psi = pick_peps(g, max_D=32)       # a gate multiplies the bond dimension by up to d^2: keep contractions (to_tensor, environments) affordable
        if psi is None:
            return None
        f = sp.family
        bonds = [(tuple(t.geometry.site2index(b.site0)), tuple(t.geometry.site2index(b.site1))) for b in t.geometry.bonds()]
        step = [round(rng.uniform(0.05, 0.5), 3), round(rng.uniform(-0.5, 0.5), 3) if rng.random() < 0.5 else 0.0]
        if rng.random() < 0.2:
            step = [0.0, step[0]]          # purely imaginary step (real-time evolution)
        kinds = ["nn_exp", "nn_exp", "local_exp", "path2", "path2", "mpo"] if t.N > 2 else ["nn_exp", "local_exp"]      # multi-site gates stack fused bond legs
        if f == "SpinlessFermions":
            kinds += ["hopping", "hopping", "occupation"]
        elif f == "SpinfulFermions":
            kinds += ["hopping", "tJ", "Coulomb", "occupation"]
        else:
            kinds += ["Heisenberg"] + (["Ising"] if sp.symname in ("dense", "Z2") else []) + (["field"] if sp.symname == "dense" else [])
        if t.N >= 2:
            kinds += ["mpo"]
        kind = rng.choice(kinds)
        args = {"kind": kind, "step": step}
        if kind in ("nn_exp", "hopping", "tJ", "Ising", "Heisenberg"):
            if not bonds:
                return None
            b = list(rng.choice(bonds))
            if rng.random() < 0.5:
                b = b[::-1]               # bond given in the reversed orientation
            args["sites"] = [list(b[0]), list(b[1])]
            if kind == "nn_exp":
                args["H"] = random_two_site_H(g, sp)
            elif kind == "hopping":
                args["t"] = round(rng.uniform(-1.5, 1.5), 3) or 0.7
                args["spin"] = rng.choice("ud") if f == "SpinfulFermions" else ""
            elif kind == "tJ":
                args["par"] = [round(rng.uniform(-1, 1), 3) for _ in range(7)]
            else:
                args["J"] = round(rng.uniform(-1.5, 1.5), 3) or 0.6
        elif kind in ("local_exp", "occupation", "Coulomb", "field"):
            args["sites"] = [list(rng.choice(t.sites))]
            if kind == "local_exp":
                nm = rng.choice([k for k in sp.neutral() if np.allclose(sp.dense_ops[k], sp.dense_ops[k].conj().T)])
                args["H"] = [[[round(rng.uniform(-1, 1), 3) or 0.3, 0.0], [0], [nm]]]
            elif kind == "Coulomb":
                args["par"] = [round(rng.uniform(-1, 1), 3) for _ in range(3)]
            else:
                args["mu"] = round(rng.uniform(-1.5, 1.5), 3) or 0.5
                args["spin"] = rng.choice("ud") if f == "SpinfulFermions" else ""
        elif kind == "path2":
            path = random_path(t, rng, rng.randint(3, 4))
            if len(path) < 2:
                return None
            args["sites"] = [list(s) for s in path]
            args["H"] = random_two_site_H(g, sp)
        else:  # mpo gate on a path of 2-4 sites
            path = random_path(t, rng, rng.choice([2, 3, 3, 4]))
            if len(path) < 2:
                return None
            args["sites"] = [list(s) for s in path]
            k = len(path)
            terms = []
            for fac, tt in [(1, sp.hermitian_terms(rng, k, rng.randint(1, 3)))]:
                terms += tt
            args["H"] = terms
            args["scale"] = rng.choice([1.0, 1.0, round(rng.uniform(0.3, 2.0), 3), -1.0])
            args["canonize"] = rng.random() < 0.3      # gate MPO brought to canonical form without normalisation: norm sits in .factor
        return {"op": "p_gate", "in": [psi], "args": args}

    # -- the yastn side ---------------------------------------------------------------------------
    def build_gate(self, task, ar):
        import yastn.tn.fpeps.gates as gates
        sp = task.space
        T = sp.table
        step = complex(*ar["step"]) if ar["step"][1] else ar["step"][0]
        sites = [tuple(s) for s in ar["sites"]]
        k = ar["kind"]
        I = T["I"]
        if k in ("nn_exp", "path2"):
            H = None
            for amp, pos, names in ar["H"]:
                a = complex(*amp) if amp[1] else amp[0]
                ops_ = [T["I"], T["I"]]
                if len(pos) == 1:
                    ops_[pos[0]] = T[names[0]]
                    term = yastn.fkron(*ops_, sites=(0, 1))
                else:
                    term = yastn.fkron(T[names[0]], T[names[1]], sites=tuple(pos))
                H = a * term if H is None else H + a * term
            G = gates.gate_nn_exp(step, I, H)
            return fpeps.Gate(G=G.G, sites=tuple(sites))
        if k == "hopping":
            s_ = ar["spin"]
            G = gates.gate_nn_hopping(ar["t"], step, I, T["c" + s_], T["cp" + s_])
            return G._replace(sites=tuple(sites))
        if k == "tJ":
            p = ar["par"]
            G = gates.gate_nn_tJ(p[0], p[1], p[2], p[3], p[4], p[5], p[6], step, I, T["cu"], T["cpu"], T["cd"], T["cpd"])
            return G._replace(sites=tuple(sites))
        if k == "Ising":
            X = sp.ops.x()
            return gates.gate_nn_Ising(ar["J"], step, I, X)._replace(sites=tuple(sites))
        if k == "Heisenberg":
            return gates.gate_nn_Heisenberg(ar["J"], step, I, 0.5 * T["z"], T["sp"], T["sm"])._replace(sites=tuple(sites))
        if k == "local_exp":
            amp, _, names = ar["H"][0]
            return gates.gate_local_exp(step, I, amp[0] * T[names[0]], site=sites[0])._replace(sites=(sites[0],))
        if k == "occupation":
            return gates.gate_local_occupation(ar["mu"], step, I, T["n" + ar["spin"]])._replace(sites=(sites[0],))
        if k == "Coulomb":
            p = ar["par"]
            return gates.gate_local_Coulomb(p[0], p[1], p[2], step, I, T["nu"], T["nd"])._replace(sites=(sites[0],))
        if k == "field":
            X = sp.ops.x()
            return gates.gate_local_field(ar["mu"], step, I, X)._replace(sites=(sites[0],))
        # mpo gate: exp(-step H) is not an MPO we can write exactly; apply the (non-unitary) operator 1 - step*H itself
        Im = mps.product_mpo(I, len(sites))
        Hm = mps.generate_mpo(Im, sp.hterms(ar["H"]))
        O = Im - step * Hm
        if ar.get("scale", 1.0) != 1.0:
            O = ar["scale"] * O
        if ar.get("canonize"):
            O.canonize_(to="last", normalize=False)
            if len(sites) > 1:
                O.canonize_(to="first", normalize=False)
        return fpeps.Gate(G=O, sites=tuple(sites))

    def run(self, task, rec, ins):
        psi = ins[0]
        gate = self.build_gate(task, rec["args"])
        self._gate = gate
        psi.apply_gate_(gate)
        return []

    # -- the model side ----------------------------------------------------------------------------
    def dense_H(self, task, sh, ar):
        """Dense Hamiltonian on the 2N chain for the documented formula of each gate (abstract site i -> lattice site sites[i])."""
        sp = task.space
        D = sp.dense_ops
        k = ar["kind"]
        idx = [task.index[tuple(s)] for s in ar["sites"]]

        def term(amp, pos, names):
            return amp * lattice_product(task, sh, [idx_map[p] for p in pos], [D[nm] for nm in names], [tuple(sp.table[nm].n) for nm in names])
        if k in ("nn_exp", "path2"):
            idx_map = {0: idx[0], 1: idx[-1]}
            return sum(term(complex(*a) if a[1] else a[0], pos, names) for a, pos, names in ar["H"])
        if k == "hopping":
            s_ = ar["spin"]
            idx_map = {0: idx[0], 1: idx[1]}
            return -ar["t"] * (term(1, [0, 1], ["cp" + s_, "c" + s_]) + term(1, [1, 0], ["cp" + s_, "c" + s_]))
        if k == "tJ":
            J, tu, td, muu0, muu1, mud0, mud1 = ar["par"]
            idx_map = {0: idx[0], 1: idx[1]}
            # on-site composite operators as matrices with their charges
            cu, cpu, cd, cpd = D["cu"], D["cpu"], D["cd"], D["cpd"]
            nu, nd = cpu @ cu, cpd @ cd
            Sp, Sm = cpu @ cd, cpd @ cu
            nSp = sp.sym.add(tuple(sp.table["cpu"].n), tuple(sp.table["cd"].n))
            nSm = sp.sym.add(tuple(sp.table["cpd"].n), tuple(sp.table["cu"].n))
            z = sp.sym.zero()

            def t2(a, A, nA, B, nB, order=(0, 1)):
                return a * lattice_product(task, sh, [idx_map[order[0]], idx_map[order[1]]], [A, B], [nA, nB])
            nc = {nm: tuple(sp.table[nm].n) for nm in ("cu", "cpu", "cd", "cpd")}
            H = t2(0.5 * J, Sp, nSp, Sm, nSm) + t2(0.5 * J, Sm, nSm, Sp, nSp) - t2(0.5 * J, nu, z, nd, z) - t2(0.5 * J, nd, z, nu, z)
            H = H - t2(tu, cpu, nc["cpu"], cu, nc["cu"]) - t2(tu, cpu, nc["cpu"], cu, nc["cu"], order=(1, 0))
            H = H - t2(td, cpd, nc["cpd"], cd, nc["cd"]) - t2(td, cpd, nc["cpd"], cd, nc["cd"], order=(1, 0))
            one = np.eye(sp.d)
            H = H - t2(muu0, nu, z, one, z) - t2(muu1, one, z, nu, z) - t2(mud0, nd, z, one, z) - t2(mud1, one, z, nd, z)
            return H
        if k == "Ising":
            X = sp.ops.x()
            Xd, nX = X.to_numpy(legs={0: sp.leg, 1: sp.leg.conj()}), tuple(X.n)
            return ar["J"] * lattice_product(task, sh, [idx[0], idx[1]], [Xd, Xd], [nX, nX])
        if k == "Heisenberg":
            idx_map = {0: idx[0], 1: idx[1]}
            Sz = 0.5 * D["z"]
            z = sp.sym.zero()
            nsp, nsm = tuple(sp.table["sp"].n), tuple(sp.table["sm"].n)
            return ar["J"] * (0.5 * lattice_product(task, sh, idx, [D["sp"], D["sm"]], [nsp, nsm]) + 0.5 * lattice_product(task, sh, idx, [D["sm"], D["sp"]], [nsm, nsp])
                              + lattice_product(task, sh, idx, [Sz, Sz], [z, z]))
        z = sp.sym.zero()
        if k == "local_exp":
            amp, _, names = ar["H"][0]
            return amp[0] * lattice_product(task, sh, idx, [D[names[0]]], [z])
        if k == "occupation":
            return -ar["mu"] * lattice_product(task, sh, idx, [D["n" + ar["spin"]]], [z])
        if k == "Coulomb":
            mu_up, mu_dn, U = ar["par"]
            one = np.eye(sp.d)
            Hl = U * (D["nu"] - one / 2) @ (D["nd"] - one / 2) - mu_up * D["nu"] - mu_dn * D["nd"] - U / 4 * one
            return lattice_product(task, sh, idx, [Hl], [z])
        if k == "field":
            X = sp.ops.x()
            return -ar["mu"] * lattice_product(task, sh, idx, [X.to_numpy(legs={0: sp.leg, 1: sp.leg.conj()})], [tuple(X.n)])
        # mpo
        idx_map = {p: idx[p] for p in range(len(idx))}
        return sum(term(complex(*a) if a[1] else a[0], pos, names) for a, pos, names in ar["H"])

    def shadow(self, task, rec, sins, outs, ins=None):
        ar = rec["args"]
        sh = sins[0]
        psi = ins[0]
        slot = rec["in"][0]
        w = core.current_world()
        invalidate_envs(task, slot)
        if getattr(w, "generating", False):
            task.shadows[slot] = PShadow(dense_peps(task, psi, sh.purified), sh.purified, sh.anc_t)
            return []
        step = complex(*ar["step"]) if ar["step"][1] else ar["step"][0]
        H = self.dense_H(task, sh, ar)
        if ar["kind"] == "mpo":
            Gd = ar.get("scale", 1.0) * (np.eye(H.shape[0]) - step * H)
        else:
            Gd = scipy.linalg.expm(-step * H)
        new = apply_to_state(task, Gd, sh.arr)
        nsh = PShadow(new, sh.purified, sh.anc_t)
        prop = "C11"
        what = "op %d apply_gate_ %s on %s (step %s)" % (rec["id"], ar["kind"], ar["sites"], ar["step"])
        try:
            compare_state(task, psi, nsh, prop, what)
        except core.Violation as v:
            v.where.update({"kind": ar["kind"]})
            raise
        task.shadows[slot] = nsh
        w.stats["gates_checked"] += 1
        w.stats["gate_%s" % ar["kind"]] += 1
        st = [tuple(x) for x in ar["sites"]]
        for s0, s1 in zip(st, st[1:]):
            dirn = task.geometry.nn_bond_dirn(s0, s1)
            w.probes["bond_dirn_" + dirn] += 1
            if task.geometry.f_ordered(s0, s1) ^ (dirn in ("lr", "tb")):
                w.probes["bond_across_periodic_boundary"] += 1
        if len(st) > 2:
            w.probes["gate_on_%d_site_path" % len(st)] += 1
        if sh.purified:
            w.probes["gate_on_purification"] += 1
        # gate matrix vs exponential of its Hamiltonian (two-site gates: recombined halves on abstract sites 0,1)
        return []


@e1.register
class PCopy(e1.Op):
    name = "p_copy"
    shares = True

    def gen(self, g):
        psi = pick_peps(g)
        if psi is None:
            return None
        return {"op": "p_copy", "in": [psi], "args": {"kind": g.rng.choice(["copy", "shallow_copy", "clone"])}}

    def run(self, task, rec, ins):
        return [getattr(ins[0], rec["args"]["kind"])()]

    def shadow(self, task, rec, sins, outs, ins=None):
        return [sins[0].copy()]


@e1.register
class PAdd(e1.Op):
    name = "p_add"

    def gen(self, g):
        a = pick_peps(g, max_D=16)
        if a is None:
            return None
        sa = g.sh(a)
        c = [s for s, v in g.task.slots.items() if is_peps(v) and g.task.shadows.get(s) is not None and g.task.shadows[s].anc_t == sa.anc_t and g.task.shadows[s].purified == sa.purified
             and max_bond(v) <= 16]
        b = g.rng.choice(c)
        amps = [round(g.rng.uniform(-2, 2), 3), round(g.rng.uniform(-2, 2), 3)]
        return {"op": "p_add", "in": [a, b], "args": {"amps": amps, "form": g.rng.choice(["add", "plus"])}}

    def run(self, task, rec, ins):
        if rec["args"]["form"] == "plus":
            return [ins[0] + ins[1]]
        return [fpeps.add(ins[0], ins[1], amplitudes=rec["args"]["amps"])]

    def shadow(self, task, rec, sins, outs, ins=None):
        a, b = sins
        if rec["args"]["form"] == "plus":
            return [PShadow(a.arr + b.arr, a.purified, a.anc_t)]
        x, y = rec["args"]["amps"]
        return [PShadow(x * a.arr + y * b.arr, a.purified, a.anc_t)]


ALLOWED_TRANS = [(0, 1, 2, 3), (1, 2, 3, 0), (2, 3, 0, 1), (3, 0, 1, 2)]


@e1.register
class PDoubleTensordot(e1.Op):
    """DoublePepsTensor.tensordot (lazy, layer by layer) vs tensordot with the explicitly fused form."""
    name = "p_dpt"
    creates = True

    def nout(self, rec):
        return 0

    def gen(self, g):
        psi = pick_peps(g)
        if psi is None:
            return None
        t = g.task
        sa = g.sh(psi)
        others = [s for s, v in t.slots.items() if is_peps(v) and t.shadows.get(s) is not None and t.shadows[s].anc_t == sa.anc_t and t.shadows[s].purified == sa.purified]
        bra = g.rng.choice(others) if g.rng.random() < 0.4 else psi
        swaps = []
        if g.rng.random() < 0.4 and t.space.sym.nsym:
            ch = t.space.charged()
            for _ in range(g.rng.randint(1, 3)):
                swaps.append([g.rng.choice("bk") + str(g.rng.randrange(5)), list(t.space.table[g.rng.choice(ch)].n) if ch else list(t.space.sym.zero())])
        return {"op": "p_dpt", "in": [psi, bra], "args": {"site": list(g.rng.choice(t.sites)), "pair": g.rng.choice([[0, 1], [1, 2], [2, 3], [3, 0], [1, 0], [3, 2], [0, 3], [2, 1]]),
                                                         "trans": g.rng.choice(range(4)), "reverse": g.rng.random() < 0.5,
                                                         "with_op": g.rng.choice([None, None] + sorted(t.space.table)), "swaps": swaps,
                                                         "extra": g.rng.randint(1, 3)}}

    def run(self, task, rec, ins):
        ar, sp = rec["args"], task.space
        psi = ins[0]
        A = psi[tuple(ar["site"])]
        dpt = fpeps.DoublePepsTensor(bra=ins[1][tuple(ar["site"])], ket=A)
        if ar["with_op"]:
            dpt.set_operator_(sp.table[ar["with_op"]])
        for ax, ch in ar["swaps"]:
            dpt.add_charge_swaps_(tuple(ch), ax)
        trans = ALLOWED_TRANS[ar["trans"]]
        dpt = dpt.transpose(axes=trans)
        full = dpt.fuse_layers()
        la = ar["pair"]
        legs_a = [full.get_legs(i) for i in la]
        extra = [yastn.Leg(sp.cfg, s=1, t=[sp.sym.zero()] if sp.sym.nsym else None, D=[ar["extra"]]) if sp.sym.nsym else yastn.Leg(sp.cfg, s=1, D=(ar["extra"],))]
        b = yastn.rand(sp.cfg, legs=[legs_a[0].conj(), legs_a[1].conj()] + extra, dtype="float64")
        if core.current_world() is not None and getattr(core.current_world(), "generating", False):
            return []
        if ar["reverse"]:
            lazy = yastn.tensordot(b, dpt, axes=((0, 1), tuple(la)))
            ref = yastn.tensordot(b, full, axes=((0, 1), tuple(la)))
        else:
            lazy = yastn.tensordot(dpt, b, axes=(tuple(la), (0, 1)))
            ref = yastn.tensordot(full, b, axes=(tuple(la), (0, 1)))
        try:
            d = float((lazy - ref).norm())
        except yastn.YastnError as e:
            raise V("C11", "double-layer-tensordot", "op %d: lazy tensordot of the two-layer tensor is not comparable with the fused form: %s" % (rec["id"], str(e)[:100]))
        if d > 1e-10 * max(1.0, float(ref.norm())):
            raise V("C11", "double-layer-tensordot", "op %d: DoublePepsTensor.tensordot(axes=%s, trans=%s, reverse=%s, op=%s) differs from the fused form by %.3e"
                    % (rec["id"], la, trans, ar["reverse"], ar["with_op"], d))
        core.current_world().stats["double_layer_contractions_checked"] += 1
        return []


@e1.register
class PGateMatrix(e1.Op):
    """Predefined gates as dense matrices vs scipy.linalg.expm of their Hamiltonian, for all parameter values."""
    name = "p_gate_matrix"

    def nout(self, rec):
        return 0

    def gen(self, g):
        rec = e1.OPS["p_gate"].gen(g)
        if rec is None or rec["args"]["kind"] in ("mpo", "path2"):
            return None
        rec["op"] = "p_gate_matrix"
        rec["in"] = []
        return rec

    def run(self, task, rec, ins):
        w = core.current_world()
        if getattr(w, "generating", False):
            return []
        ar, sp = rec["args"], task.space
        gate = e1.OPS["p_gate"].build_gate(task, ar)
        step = complex(*ar["step"]) if ar["step"][1] else ar["step"][0]
        # evaluate on an abstract 1- or 2-site chain (no ancillas): a Task-like stand-in
        k = len(gate.G)

        class _T:
            pass
        tt = _T()
        tt.space = sp
        tt.N = k
        tt.index = {tuple(s): i for i, s in enumerate([tuple(x) for x in ar["sites"]])}
        sh = PShadow(np.zeros([x for _ in range(k) for x in (sp.d, 1)]), False, [[sp.sym.zero()] for _ in range(k)])
        H = e1.OPS["p_gate"].dense_H(tt, sh, ar)
        ref = scipy.linalg.expm(-step * H)
        if k == 1:
            got = gate.G[0].to_numpy(legs={0: sp.leg, 1: sp.leg.conj()})
        else:
            T4 = gate_to_T4(gate.G[0], gate.G[1], sp.leg)
            got = two_site_operator_on_lattice(tt, sh, T4, 0, 1)
        if got.shape != ref.shape or not np.allclose(got, ref, atol=1e-10 * max(1.0, float(np.max(np.abs(ref))))):
            raise V("C11", "gate-matrix", "op %d: gate %s with parameters %s is not exp(-step H) of its documented Hamiltonian (max deviation %.3e)"
                    % (rec["id"], ar["kind"], {a: b for a, b in ar.items() if a not in ("kind", "sites")}, float(np.max(np.abs(got - ref))) if got.shape == ref.shape else -1))
        w.stats["gate_matrices_checked"] += 1
        return []


E3_WEIGHTS_C11 = {"p_init": 1.5, "p_gate": 12, "p_copy": 1.5, "p_add": 1, "p_dpt": 2.5, "p_gate_matrix": 3}


# =====================================================================================================================
# C12: environments as caches of contractions — exact expectation values, metrics, untruncated evolution
# =====================================================================================================================

def apply_site_op(task, arr, k, O, n):
    """On-site matrix O (charge n) on the system leg of fermionic position k, applied to the amplitude array
    (axes sys0, anc0, sys1, anc1, ...); Jordan-Wigner string on the system legs before k."""
    sp = task.space
    a = arr
    if sp.sym.nsym and any(jw.flags_of(sp.sym, sp.fermionic)):
        sgn = np.array([float(jw.sign(sp.sym, sp.fermionic, n, t)) for t in sp.site.state_t])
        if not np.all(sgn == 1):
            for j in range(k):
                shape = [1] * a.ndim
                shape[2 * j] = sp.d
                a = a * sgn.reshape(shape)
    return np.moveaxis(np.tensordot(np.asarray(O), a, axes=(1, 2 * k)), 0, 2 * k)


def expectation(task, sh, sites, names):
    """<psi| O0(s0) O1(s1) ... |psi> / <psi|psi> for the dense model state (written order: the last operator acts first)."""
    sp = task.space
    ket = sh.arr
    for s, nm in reversed(list(zip(sites, names))):
        ket = apply_site_op(task, ket, task.index[tuple(s)], sp.dense_ops[nm], tuple(sp.table[nm].n))
    return complex(np.vdot(sh.arr, ket) / np.vdot(sh.arr, sh.arr))


def total_charge_zero(sp, names):
    if not sp.sym.nsym:
        return True
    tot = sp.sym.zero()
    for nm in names:
        tot = sp.sym.add(tot, tuple(sp.table[nm].n))
    return tuple(tot) == tuple(sp.sym.zero())


def spanning_tree(task, rng):
    sites = [tuple(s) for s in task.sites]
    seen = {rng.choice(sites)}
    bonds = [(tuple(b.site0), tuple(b.site1)) for b in task.geometry.bonds()]
    tree = []
    while len(seen) < len(sites):
        cand = [b for b in bonds if (b[0] in seen) != (b[1] in seen)]
        b = rng.choice(cand)
        tree.append(b)
        seen.update(b)
    return tree


@e1.register
class PPrepare(e1.Op):
    """Random shallow circuit from a product state; the dense model state is read back with to_tensor()
    (exactness of gate application is C11's business)."""
    name = "p_prepare"
    readback = True

    def gen(self, g):
        rng, t = g.rng, g.task
        sp = t.space
        purified = rng.random() < 0.25 and sp.d ** (2 * t.N) <= 4096
        occ = [rng.randrange(sp.d) for _ in range(t.N)]
        tree = bool(t.cfgspec.get("tree"))
        bonds = spanning_tree(t, rng) if tree else [(tuple(b.site0), tuple(b.site1)) for b in t.geometry.bonds()]
        rng.shuffle(bonds)
        heavy = sp.family == "SpinfulFermions"
        nb = rng.randint(1, len(bonds)) if bonds else 0
        gates = []
        for b in bonds[:nb]:
            step = [round(rng.uniform(0.05, 0.6), 3), round(rng.uniform(-0.8, 0.8), 3) if rng.random() < 0.6 else 0.0]
            kinds = ["hopping"] if heavy else (["nn_exp", "hopping"] if sp.family == "SpinlessFermions" else ["nn_exp", "Heisenberg"])
            kind = rng.choice(kinds)
            b = list(b) if rng.random() < 0.7 else list(b)[::-1]
            a = {"kind": kind, "step": step, "sites": [list(b[0]), list(b[1])]}
            if kind == "nn_exp":
                a["H"] = random_two_site_H(g, sp)
            elif kind == "hopping":
                a["t"] = round(rng.uniform(-1.5, 1.5), 3) or 0.7
                a["spin"] = rng.choice("ud") if heavy else ""
            else:
                a["J"] = round(rng.uniform(-1.5, 1.5), 3) or 0.6
            gates.append(a)
            if rng.random() < 0.3:
                nm = rng.choice([k for k in sp.neutral() if np.allclose(sp.dense_ops[k], sp.dense_ops[k].conj().T)])
                gates.append({"kind": "local_exp", "step": [round(rng.uniform(0.05, 0.5), 3), 0.0], "sites": [list(rng.choice(t.sites))],
                              "H": [[[round(rng.uniform(-1, 1), 3) or 0.3, 0.0], [0], [nm]]]})
        return {"op": "p_prepare", "in": [], "args": {"purified": purified, "occ": occ, "gates": gates}}

    def run(self, task, rec, ins):
        ar, sp = rec["args"], task.space
        if ar["purified"]:
            psi = fpeps.product_peps(task.geometry, sp.table["I"])
        else:
            psi = fpeps.product_peps(task.geometry, {s: sp.vec(ar["occ"][i]) for i, s in enumerate(task.sites)})
        for a in ar["gates"]:
            psi.apply_gate_(e1.OPS["p_gate"].build_gate(task, a))
        return [psi]

    def shadow(self, task, rec, sins, outs, ins=None):
        ar, sp = rec["args"], task.space
        anc_t = [list(sp.site.state_t) for _ in range(task.N)] if ar["purified"] else [[sp.site.state_t[ar["occ"][i]]] for i in range(task.N)]
        return [PShadow(dense_peps(task, outs[0], ar["purified"]), ar["purified"], anc_t)]


def invalidate_envs(task, slot):
    """Environments built from the tensors a PEPS held before an in-place change are stale caches: drop them from the model pool."""
    for q, esh in list(task.shadows.items()):
        if isinstance(esh, EnvShadow) and esh.psi_slot == slot:
            task.shadows[q] = None


class EnvShadow:
    def __init__(self, kind, psi_slot, state, exact=True):
        self.kind, self.psi_slot, self.state, self.exact = kind, psi_slot, state, exact


def is_env(v):
    return isinstance(v, (fpeps.EnvBoundaryMPS, fpeps.EnvCTM, fpeps.EnvBP))


BIG_SVD = {"D_total": 1 << 14, "tol": 1e-14}


@e1.register
class PEnv(e1.Op):
    name = "p_env"
    creates = True

    def gen(self, g):
        rng, t = g.rng, g.task
        psi = pick_peps(g, max_D=16)         # exact environments cost D^4..D^8
        if psi is None:
            return None
        kinds = ["bmps", "ctm", "ctm"]
        if t.cfgspec.get("tree"):
            kinds += ["bp", "bp", "bp"]
        kind = rng.choice(kinds)
        args = {"kind": kind}
        if kind == "bmps":
            s = list("lrtb")
            rng.shuffle(s)
            args["setup"] = "".join(s) if rng.random() < 0.7 else rng.choice(["lr", "rl"])
        elif kind == "ctm":
            need = max(t.dims) - 1
            args["init"] = rng.choice(["eye", "dl"])
            args["expand"] = max(0, need - (1 if args["init"] == "dl" else 0)) + rng.choice([0, 0, 1])
        else:
            args["sweeps"] = t.N + 2
            args["init"] = "eye"
        return {"op": "p_env", "in": [psi], "args": args}

    def run(self, task, rec, ins):
        ar = rec["args"]
        psi = ins[0]
        if ar["kind"] == "bmps":
            return [fpeps.EnvBoundaryMPS(psi, opts_svd=dict(BIG_SVD), setup=ar["setup"])]
        if ar["kind"] == "ctm":
            env = fpeps.EnvCTM(psi, init=ar["init"])
            for _ in range(ar["expand"]):
                env.expand_outward_()
            return [env]
        env = fpeps.EnvBP(psi, init=ar["init"])
        info = env.iterate_(max_sweeps=ar["sweeps"], diff_tol=1e-13)
        self._bp_info = info
        return [env]

    def shadow(self, task, rec, sins, outs, ins=None):
        exact = True
        if rec["args"]["kind"] == "bp":
            comp = {}
            exact = loop_free(ins[0], comp)      # belief propagation is exact only when the bonds of dimension > 1 form a forest
            if not exact:
                return [None]
            esh = EnvShadow(rec["args"]["kind"], rec["in"][0], sins[0].copy(), exact)
            esh.bond_D = {(tuple(b[0]), tuple(b[1])): D for b, D in ins[0].get_bond_dimensions().items()}
            esh.comp = comp
            return [esh]
        return [EnvShadow(rec["args"]["kind"], rec["in"][0], sins[0].copy(), exact)]


def loop_free(psi, components=None):
    """The bonds with dimension > 1 form a forest (union-find)."""
    parent = {} if components is None else components

    def find(x):
        while parent.setdefault(x, x) != x:
            parent[x] = parent[parent[x]]
            x = parent[x]
        return x
    for b, D in psi.get_bond_dimensions().items():
        if D > 1:
            a, c = find(tuple(b[0])), find(tuple(b[1]))
            if a == c:
                return False
            parent[a] = c
    return True


def pick_env(g):
    c = [s for s, v in g.task.slots.items() if is_env(v) and g.task.shadows.get(s) is not None]
    return g.rng.choice(c[-3:]) if c else None


def random_ops(g, sp, k, neutral_only=False):
    names = sorted(sp.table)
    for _ in range(60):
        pick = [g.rng.choice(sp.neutral() if neutral_only else names) for _ in range(k)]
        if all(p == "I" for p in pick) and g.rng.random() < 0.8:
            continue
        if total_charge_zero(sp, pick):
            return pick
    return ["I"] * k


@e1.register
class PMeasure(e1.Op):
    """One measurement call on an environment object; every returned value vs the dense expectation value."""
    name = "p_measure"

    def gen(self, g):
        rng, t = g.rng, g.task
        sp = t.space
        e = pick_env(g)
        if e is None:
            return None
        esh = g.sh(e)
        kind = esh.kind
        env = g.val(e)
        sites = [tuple(s) for s in t.sites]
        bonds = [(tuple(b.site0), tuple(b.site1)) for b in t.geometry.bonds()]
        if kind == "bmps":
            fns = ["1site", "1site_all", "nsite", "nsite"]
            if set("lrtb") <= set(env_setup(g, e)):
                fns += ["nn_all", "nn_all", "nn_all", "2site", "2site"]
            else:
                fns += ["2site_v"]
        elif kind == "ctm":
            # measure_2x2 / measure_nsite_exact need a 2x2 window to exist (KeyError on 1xN chains: observation, outside the property's lattices)
            fns = ["1site", "1site_all", "nn", "nn_all", "line", "nsite", "2site", "2site"] + (["2x2", "2x2", "nsite_exact", "nsite_exact"] if min(t.dims) >= 2 else [])
        else:
            fns = ["1site", "1site_all", "nn", "nn_all"]
        if not bonds:
            fns = [f for f in fns if f not in ("nn", "nn_all", "2x2")]
        fn = rng.choice(fns)
        args = {"fn": fn}
        if fn in ("1site", "1site_all"):
            args["ops"] = random_ops(g, sp, 1, neutral_only=True)
            args["sites"] = [list(rng.choice(sites))]
        elif fn in ("nn", "nn_all"):
            args["ops"] = random_ops(g, sp, 2)
            ch = [nm for nm in sp.charged()]
            if ch and rng.random() < 0.5:      # odd-charge pairs are where strings and swaps matter
                for _ in range(30):
                    pr2 = [rng.choice(ch), rng.choice(ch)]
                    if total_charge_zero(sp, pr2):
                        args["ops"] = pr2
                        break
            b = list(rng.choice(bonds))
            if fn == "nn" and rng.random() < 0.5 and kind != "bmps":
                b = b[::-1]
            args["sites"] = [list(b[0]), list(b[1])]
        elif fn in ("2site", "2site_v"):
            args["ops"] = random_ops(g, sp, 2)
            args["dirn"] = "v" if fn == "2site_v" else rng.choice("hv")
            args["pairs"] = rng.choice(["corner <=", "corner <", "row <=", "row <", "<=", "<", "<"])
            args["sites"] = []
            if fn == "2site" and rng.random() < 0.4 and max(t.dims) >= 2:
                # a sub-window of the lattice (ranges [r0, r1) of rows and columns); 'corner' / 'row' then refer to the window
                def sub(n):
                    a = rng.randrange(n)
                    return [a, rng.randint(a + 1, n)]
                args["xrange"], args["yrange"] = sub(t.dims[0]), sub(t.dims[1])
        elif fn == "2x2":
            x0, y0 = rng.randrange(t.dims[0] - 1), rng.randrange(t.dims[1] - 1)
            win = [(x0, y0), (x0 + 1, y0), (x0, y0 + 1), (x0 + 1, y0 + 1)]
            k = rng.randint(2, 4)
            args["sites"] = [list(rng.choice(win)) for _ in range(k)]
            if len({tuple(s) for s in args["sites"]}) == 1:
                args["sites"][0] = list(next(w for w in win if list(w) != args["sites"][0]))
            args["ops"] = random_ops(g, sp, k)
        elif fn == "line":
            if rng.random() < 0.5:
                x = rng.randrange(t.dims[0])
                line = [(x, y) for y in range(t.dims[1])]
            else:
                y = rng.randrange(t.dims[1])
                line = [(x, y) for x in range(t.dims[0])]
            k = rng.randint(1, min(4, len(line) + 1))
            args["sites"] = [list(rng.choice(line)) for _ in range(k)]
            args["ops"] = random_ops(g, sp, k)
        else:  # nsite / nsite_exact
            k = rng.randint(1, 4)
            args["sites"] = [list(rng.choice(sites)) for _ in range(k)]
            args["ops"] = random_ops(g, sp, k)
        return {"op": "p_measure", "in": [e], "args": args}

    def run(self, task, rec, ins):
        ar, sp = rec["args"], task.space
        env = ins[0]
        T = sp.table
        ops_ = [T[nm] for nm in ar["ops"]]
        st = [tuple(s) for s in ar["sites"]]
        fn = ar["fn"]
        if fn == "1site":
            return [("val", env.measure_1site(ops_[0], site=st[0]))]
        if fn == "1site_all":
            return [("sites", env.measure_1site(ops_[0]))]
        if fn == "nn":
            return [("val", env.measure_nn(ops_[0], ops_[1], bond=(st[0], st[1])))]
        if fn == "nn_all":
            if isinstance(env, fpeps.EnvBoundaryMPS):
                return [("bonds", env.measure_nn(ops_[0], ops_[1]))]
            return [("bonds", env.measure_nn(ops_[0], ops_[1]))]
        if fn in ("2site", "2site_v"):
            kw = {}
            if ar.get("xrange"):
                kw = {"xrange": tuple(ar["xrange"]), "yrange": tuple(ar["yrange"])}
            return [("pairs", env.measure_2site(ops_[0], ops_[1], pairs=ar["pairs"], dirn=ar["dirn"], opts_svd=dict(BIG_SVD), **kw))]
        f = {"2x2": "measure_2x2", "line": "measure_line", "nsite": "measure_nsite", "nsite_exact": "measure_nsite_exact"}[fn]
        if fn != "nsite":
            return [("val", getattr(env, f)(*ops_, sites=st))]
        # measure_nsite contracts a window with boundary MPSs truncated to the environment's own bond dimension (not a parameter):
        # an external probe on mps.zipper observes the discarded weight; the value is held to exactness only if nothing was discarded
        disc = []
        orig = mps.zipper

        def observed(a, b, opts_svd=None, normalize=True, return_discarded=False):
            out, d = orig(a, b, opts_svd=opts_svd, normalize=normalize, return_discarded=True)
            disc.append(float(d))
            return (out, d) if return_discarded else out
        mps.zipper = observed
        try:
            val = getattr(env, f)(*ops_, sites=st)
        finally:
            mps.zipper = orig
        return [("val" if max(disc + [0.0]) < 1e-12 else "val_truncated", val)]

    def shadow(self, task, rec, sins, outs, ins=None):
        w = core.current_world()
        if not getattr(w, "generating", False):
            check_measure(task, rec, outs[0], sins[0], w)
        return [None]


def env_setup(g, slot):
    for r in g.program:
        if slot in r.get("out", []):
            return r["args"].get("setup", "")
    return ""


def check_measure(task, rec, result, esh, world, prop="C12", tol=1e-8):
    ar = rec["args"]
    kind, val = result
    sh = esh.state
    names = ar["ops"]

    def root(x):
        while esh.comp.get(x, x) != x:
            x = esh.comp[x]
        return x

    def cmp(got, sites, what):
        if esh.kind == "bp" and len(sites) == 2:
            a, b = tuple(sites[0]), tuple(sites[1])
            D = esh.bond_D.get((a, b), esh.bond_D.get((b, a)))
            if D == 1 and root(a) == root(b):
                # the two sites are correlated through the rest of the tree, not through this (trivial) bond: BP is not exact here
                world.probes["bp_value_on_non_tree_bond_not_held_to_exactness"] += 1
                return
        ref = expectation(task, sh, sites, names[:len(sites)])
        if not np.isfinite(complex(got)) or abs(complex(got) - ref) > tol * max(1.0, abs(ref)):
            raise V(prop, "expectation-value", "op %d %s(%s) on a %s environment: %s returned %r, dense state gives %r (difference %.3e)"
                    % (rec["id"], ar["fn"], ",".join(names), esh.kind, what, complex(got), ref, abs(complex(got) - ref)), fn=ar["fn"], env=esh.kind)
        world.stats["values_checked"] += 1
        if all(nm == "I" for nm in names[:len(sites)]):
            world.probes["identity_measured"] += 1
    if kind == "val_truncated":
        world.probes["window_truncation_bound_value_not_held_to_exactness"] += 1
        return
    if kind == "val":
        cmp(val, ar["sites"], "sites %s" % ar["sites"])
    elif kind == "sites":
        if len(val) != task.N:
            raise V(prop, "coverage", "op %d measure_1site returned %d entries for %d sites" % (rec["id"], len(val), task.N))
        for s, v in val.items():
            cmp(v, [tuple(s)[:2]], "site %s" % (tuple(s),))
    elif kind == "bonds":
        nb = len(list(task.geometry.bonds()))
        if len(val) != nb:
            raise V(prop, "coverage", "op %d measure_nn returned %d entries for %d bonds" % (rec["id"], len(val), nb))
        for b, v in val.items():
            cmp(v, [tuple(b[0]), tuple(b[1])], "bond %s" % (tuple(map(tuple, b[:2])),))
    else:
        if not val and "=" in ar["pairs"]:
            raise V(prop, "coverage", "op %d measure_2site returned no pairs" % rec["id"])
        # the documented selection of pairs (window, 'corner' / 'row' / all, '<' and '=' in the order of the set-up direction)
        xr = ar.get("xrange") or [0, task.dims[0]]
        yr = ar.get("yrange") or [0, task.dims[1]]
        win = [(x, y) for x in range(*xr) for y in range(*yr)]
        if "corner" in ar["pairs"]:
            allp = [((xr[0], yr[0]), s1) for s1 in win]
        elif "row" in ar["pairs"]:
            allp = [((xr[0], y), s1) for y in range(*yr) for s1 in win]
        else:
            allp = [(s0, s1) for s0 in win for s1 in win]
        so = (lambda q: q) if ar["dirn"] == "h" else (lambda q: q[::-1])
        exp = set()
        if "<" in ar["pairs"]:
            exp |= {(a, b) for a, b in allp if so(a) < so(b)}
        if "=" in ar["pairs"]:
            exp |= {(a, b) for a, b in allp if a == b}
        got = {(tuple(a)[:2], tuple(b)[:2]) for a, b in val}
        if got != exp:
            raise V(prop, "coverage", "op %d measure_2site(pairs=%r, dirn=%r, xrange=%s, yrange=%s) returned the pairs %s, documented selection is %s"
                    % (rec["id"], ar["pairs"], ar["dirn"], xr, yr, sorted(got)[:6], sorted(exp)[:6]), fn=ar["fn"], env=esh.kind)
        for (s0, s1), v in val.items():
            cmp(v, [tuple(s0)[:2], tuple(s1)[:2]], "pair %s %s" % (tuple(s0), tuple(s1)))
    world.stats["measure_%s_%s" % (esh.kind, ar["fn"])] += 1


E3_WEIGHTS_C12 = {"p_prepare": 0.7, "p_env": 2, "p_measure": 10}


# ---- bond metrics (external probe on env.bond_metric) and untruncated evolution steps -----------------------------------

NTU_WHICH = ["NN", "NN+", "NN++", "NNN", "NNN+", "NNN++"]
BP_WHICH = ["BP", "NN+BP", "NNN+BP"]


def check_metric(g, rec, which, where, world, prop="C12", tol=1e-9):
    """Hermitian and positive semi-definite up to round-off."""
    gs = [g.g] if hasattr(g, "g") else [g.gL, g.gR]
    for x in gs:
        M = x.to_numpy()
        nrm = float(np.linalg.norm(M))
        if not np.isfinite(nrm) or nrm == 0:
            raise V(prop, "metric", "op %d: bond metric %s at %s has norm %r" % (rec["id"], which, where, nrm), which=which)
        ah = float(np.linalg.norm(M - M.conj().T)) / 2 / nrm
        ev = np.linalg.eigvalsh((M + M.conj().T) / 2)
        if ah > tol or ev.min() < -tol * nrm:
            raise V(prop, "metric", "op %d: bond metric of environment %s at bond %s is not Hermitian PSD up to round-off: anti-Hermitian part %.3e, smallest eigenvalue %.3e (relative to the norm)"
                    % (rec["id"], which, where, ah, ev.min() / nrm), which=which)
        world.stats["metrics_checked"] += 1
        world.stats["metric_%s" % which] += 1


@e1.register
class PEvolve(e1.Op):
    """evolution_step_ with a truncation that does not bind, on an NTU/BP environment; metrics observed through a probe."""
    name = "p_evolve"
    inplace = True

    def nout(self, rec):
        return 0

    def gen(self, g):
        rng, t = g.rng, g.task
        sp = t.space
        psi = pick_peps(g, max_D=8)          # the bond metric is a (D^2 x D^2) eigenproblem: histories that piled up gates on one bond are left alone
        if psi is None or t.N < 2:
            return None
        rec = None
        for _ in range(10):
            rec = e1.OPS["p_gate"].gen(g)
            if rec is not None and rec["args"]["kind"] in ("nn_exp", "hopping", "Heisenberg", "Ising", "tJ", "path2", "mpo") and len(rec["args"]["sites"]) <= 3:
                break
            rec = None
        if rec is None:
            return None
        a = rec["args"]
        if sp.family == "SpinfulFermions" and a["kind"] not in ("hopping",):
            return None       # keep bond dimensions small
        fam = rng.choice(["ntu", "ntu", "bp"])
        a2 = {"gate": a, "env": fam, "which": rng.choice(NTU_WHICH if fam == "ntu" else BP_WHICH), "method": rng.choice(["mpo", "NN"]),
              "initialization": rng.choice(["EAT_SVD", "SVD", "EAT"]), "fix_metric": rng.choice([0, 0, 1, None])}
        return {"op": "p_evolve", "in": [psi], "args": a2}

    def run(self, task, rec, ins):
        ar = rec["args"]
        psi = ins[0]
        gate = e1.OPS["p_gate"].build_gate(task, ar["gate"])
        env = fpeps.EnvNTU(psi, which=ar["which"]) if ar["env"] == "ntu" else fpeps.EnvBP(psi, which=ar["which"])
        seen = []
        orig = env.bond_metric

        def observed(Q0, Q1, s0, s1, dirn):
            g = orig(Q0, Q1, s0, s1, dirn)
            seen.append((g, (tuple(s0), tuple(s1), dirn)))
            return g
        env.bond_metric = observed
        infos = fpeps.evolution_step_(env, [gate], opts_svd={"D_total": 1 << 12, "tol": 1e-15}, method=ar["method"], initialization=ar["initialization"], fix_metric=ar["fix_metric"])
        self._last = (seen, infos)
        return []

    def shadow(self, task, rec, sins, outs, ins=None):
        ar = rec["args"]
        sh, psi, slot = sins[0], ins[0], rec["in"][0]
        w = core.current_world()
        new_state = PShadow(dense_peps(task, psi, sh.purified), sh.purified, sh.anc_t)
        task.shadows[slot] = new_state            # later measurements refer to the state as it is now
        invalidate_envs(task, slot)
        if getattr(w, "generating", False):
            return []
        seen, infos = self._last
        for g, where in seen:
            check_metric(g, rec, ar["which"], where, w)
        a = ar["gate"]
        step = complex(*a["step"]) if a["step"][1] else a["step"][0]
        H = e1.OPS["p_gate"].dense_H(task, sh, a)
        Gd = a.get("scale", 1.0) * (np.eye(H.shape[0]) - step * H) if a["kind"] == "mpo" else scipy.linalg.expm(-step * H)
        ref = apply_to_state(task, Gd, sh.arr)
        got = new_state.arr
        c = np.vdot(ref, got) / np.vdot(ref, ref)
        dev = float(np.linalg.norm(got - c * ref) / max(np.linalg.norm(got), 1e-300))
        errs = [float(i.truncation_error) for i in infos]
        # round-off level here is sqrt(machine epsilon) * scale: the library measures truncation through squared norms (reported errors of ~1e-7 are
        # round-off, and the state deviates by the same amount); the same 1e-6 bounds both
        if dev > 1e-6 or abs(c) < 1e-12:
            raise V("C12", "untruncated-evolution", "op %d: evolution_step_ (env %s, method %s, initialization %s) with a non-binding truncation does not reproduce the exactly evolved state up to normalisation: "
                    "relative deviation %.3e (reported truncation errors %s)" % (rec["id"], ar["which"], ar["method"], ar["initialization"], dev, errs), which=ar["which"])
        if any(not np.isfinite(e) or e > 1e-6 for e in errs):
            raise V("C12", "truncation-error", "op %d: evolution_step_ (env %s, method %s, initialization %s) with a non-binding truncation reports truncation errors %s (state deviation %.3e)"
                    % (rec["id"], ar["which"], ar["method"], ar["initialization"], errs, dev), which=ar["which"])
        w.stats["evolutions_checked"] += 1
        w.stats["evolve_%s_%s" % (ar["env"], ar["method"])] += 1
        w.probes["max_reported_truncation_error_1e-9_units"] = max(w.probes["max_reported_truncation_error_1e-9_units"], int(max(errs + [0]) / 1e-9))
        return []


E3_WEIGHTS_C12 = {"p_prepare": 0.7, "p_env": 2, "p_measure": 10, "p_evolve": 3}


@e1.register
class PMetric(e1.Op):
    """Bond metrics of NTU / BP environments for chosen cluster types and bonds, observed through a probe on env.bond_metric
    while the public truncate_ runs with a non-binding truncation on a copy of the state."""
    name = "p_metric"

    def nout(self, rec):
        return 0

    def gen(self, g):
        rng, t = g.rng, g.task
        psi = pick_peps(g, max_D=8)
        if psi is None or t.N < 2:
            return None
        bonds = [[list(b.site0), list(b.site1)] for b in t.geometry.bonds()]
        rng.shuffle(bonds)
        nb = len(bonds) if rng.random() < 0.6 else rng.randint(1, min(3, len(bonds)))
        which = rng.sample(NTU_WHICH + BP_WHICH, rng.randint(1, 3))
        if rng.random() < 0.5:
            which = list(NTU_WHICH)
        return {"op": "p_metric", "in": [psi], "args": {"bonds": bonds[:nb], "which": which}}

    def run(self, task, rec, ins):
        ar = rec["args"]
        seen, errors, infos = [], [], []
        for which in ar["which"]:
            psi = ins[0].copy()
            env = fpeps.EnvNTU(psi, which=which) if which in NTU_WHICH else fpeps.EnvBP(psi, which=which)
            orig = env.bond_metric

            def observed(Q0, Q1, s0, s1, dirn, orig=orig, which=which):
                g = orig(Q0, Q1, s0, s1, dirn)
                seen.append((g, which, (tuple(s0), tuple(s1), dirn)))
                return g
            env.bond_metric = observed
            for b in ar["bonds"]:
                try:
                    info = fpeps.truncate_(env, opts_svd={"D_total": 1 << 12, "tol": 1e-15}, bond=(tuple(b[0]), tuple(b[1])))
                    infos.append((which, b, float(info.truncation_error)))
                except Exception as e:  # noqa: BLE001  (a metric that is not PSD makes the optimiser fail: report the metric first)
                    errors.append((which, b, "%s: %s" % (type(e).__name__, str(e)[:100])))
        self._last = (seen, errors, infos)
        return []

    def shadow(self, task, rec, sins, outs, ins=None):
        w = core.current_world()
        if getattr(w, "generating", False):
            return []
        seen, errors, infos = self._last
        for g, which, where in seen:
            check_metric(g, rec, which, where, w)
        if errors:
            raise V("C12", "exception-where-result-promised", "op %d: truncate_ with a non-binding truncation raised on environment %s, bond %s: %s" % ((rec["id"],) + errors[0]))
        bad = [(wh, b, e) for wh, b, e in infos if not np.isfinite(e) or e > 1e-6]
        if bad:
            raise V("C12", "truncation-error", "op %d: truncate_ with a non-binding truncation reports truncation error %.3e (environment %s, bond %s)" % (rec["id"], bad[0][2], bad[0][0], bad[0][1]))
        return []


E3_WEIGHTS_C12 = {"p_prepare": 0.7, "p_env": 2, "p_measure": 10, "p_evolve": 3, "p_metric": 2.5}
