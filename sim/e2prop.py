"""Common build for single-task E2 (MPS world) properties."""
from . import core, e1, e1run, e1prop, e2

SMALL = {"SpinlessFermions": 7, "Spin12": 7, "Spin1": 5, "SpinfulFermions": 4, "Qdit": 5}


def build(seed, tier, prop, weights, nops=(8, 16), seed_ops=("m_random_mps", "m_random_mps", "m_random_mpo"), p_disturbed=0.5, Nmax=None, families=None,
          lapack=True, Nmin=1):
    rng = core.stream(seed, "programs")
    swarm = core.stream(seed, "swarm")
    fam = rng.choice(families or ["SpinlessFermions", "SpinlessFermions", "Spin12", "Spin12", "Spin1", "SpinfulFermions", "Qdit"])
    sym = rng.choice(e2.FAMILIES[fam])
    N = rng.randint(Nmin, max(Nmin, min(SMALL[fam] + (1 if Nmax and Nmax > 7 and SMALL[fam] == 7 else 0), Nmax or 7)))
    arm = "disturbed" if swarm.random() < p_disturbed else "baseline"
    cfg = {"family": fam, "sym": sym, "N": N, "qd": rng.choice([2, 3])}
    if arm == "disturbed":
        cfg.update({"tensordot_policy": swarm.choice(e1run.POLICIES), "default_fusion": swarm.choice(["hard", "meta"])})
    else:
        cfg.update({"tensordot_policy": "fuse_to_matrix", "default_fusion": "hard"})
    spec = {"id": 0, "engine": "E2", "config": cfg, "universe": [], "tags": {}}
    wts = dict(weights)
    n = swarm.randint(*nops)
    prog, digs, t = e1run.generate_cold(seed, spec, rng, n, wts, seed_ops=seed_ops, cache_impl="real")   # iterative solvers: generation with warm real caches
    ts = dict(spec)
    ts["program"] = prog
    world = {"cache_impl": "real", "maxsize": "default", "lapack": True, "fc": {}}
    if arm == "disturbed":
        world = {"cache_impl": swarm.choice(["real", "instrumented", "instrumented"]), "maxsize": swarm.choice(["default", 0, 1, 2, 8]), "lapack": True,
                 "fc": {"p_lookup": swarm.choice([0.0, 0.02, 0.08]), "lookup_kinds": ["evict", "clear_table", "clear_all", "resize"],
                        "p_lapack": swarm.choice([0.0, 0.1, 0.4]) if lapack else 0.0}}
    sched = [["op", 0, r["id"]] for r in prog]
    return {"format": 1, "property": prop, "engine": "E2", "arm": arm, "seed": seed, "world": world, "tasks": [ts],
            "schedule": sched, "inner": {}, "mode": "draw", "rejected": getattr(t, "rejected", [])}
