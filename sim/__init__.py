"""Deterministic simulation harness for yastn (see /verif/DESIGN.md)."""
