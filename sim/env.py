"""Process environment: must be imported before numpy / yastn.

Pins BLAS threads, selects the tree under test (VERIF_REPO, default /repo) and makes
sure that tree is the `yastn` that gets imported (it precedes the editable install).
"""
import os
import sys

for _k in ("OPENBLAS_NUM_THREADS", "OMP_NUM_THREADS", "MKL_NUM_THREADS", "NUMEXPR_NUM_THREADS"):
    os.environ[_k] = "1"

REPO = os.environ.get("VERIF_REPO", "/repo")
VERIF = os.path.dirname(os.path.dirname(os.path.abspath(__file__)))

if REPO not in sys.path:
    sys.path.insert(0, REPO)
if VERIF not in sys.path:
    sys.path.insert(0, VERIF)


def import_yastn():
    import yastn  # noqa
    f = os.path.realpath(yastn.__file__)
    if not f.startswith(os.path.realpath(REPO) + os.sep):
        raise RuntimeError(f"yastn imported from {f}, expected under {REPO}")
    return yastn
