"""Common build/simulate for single-task E1 properties checked against the dense shadow
(C01, C02, C03): baseline arm (reference knobs, no faults) and disturbed arm (knobs drawn,
cache faults at every lookup, LAPACK faults, buggify events at op boundaries)."""
import copy as _copy

import numpy as np

from . import core, e1, e1run, monitor
from .core import yastn
from .models.group import SYM_NAMES

REF = {"tensordot_policy": "fuse_to_matrix", "default_fusion": "hard", "force_fusion": None}


def build(seed, tier, prop, weights, nops=(8, 18), syms=SYM_NAMES, seed_ops=("rand",), p_disturbed=0.6, universe_kw=None,
          fermionic=True):
    rng = core.stream(seed, "programs")
    swarm = core.stream(seed, "swarm")
    sym = rng.choice(list(syms))
    arm = "disturbed" if swarm.random() < p_disturbed else "baseline"
    cfg = {"sym": sym, "fermionic": rng.choice(e1run.fermionic_choices(sym)) if fermionic else False}
    if arm == "baseline":
        cfg.update(REF)
    else:
        cfg.update({"tensordot_policy": swarm.choice(e1run.POLICIES), "default_fusion": swarm.choice(["hard", "meta"]),
                    "force_fusion": swarm.choice([None, None, None, "hard", "meta"])})
    spec = {"id": 0, "config": cfg, "universe": [u.to_json() for u in e1.gen_universe(sym, rng, **(universe_kw or {}))], "tags": {}}
    wts = dict(weights)
    for k in list(wts):
        if swarm.random() < 0.15:
            wts[k] = 0
    n = swarm.randint(*nops)
    prog, digs, t = e1run.generate_cold(seed, spec, rng, n, wts, seed_ops=seed_ops)
    ts = dict(spec)
    ts["program"] = prog
    world = {"cache_impl": "real", "maxsize": "default", "lapack": True, "fc": {}}
    sched = []
    frng = core.stream(seed, "buggify")
    p_f5 = 0.0
    if arm == "disturbed":
        world = {"cache_impl": swarm.choice(["real", "instrumented", "instrumented"]), "maxsize": swarm.choice(["default", 0, 1, 2, 3, 8]),
                 "lapack": True,
                 "fc": {"p_lookup": swarm.choice([0.0, 0.03, 0.1, 0.15]), "lookup_kinds": ["evict", "clear_table", "clear_all", "resize"],
                        "p_lapack": swarm.choice([0.0, 0.0, 0.3, 1.0])}}
        p_f5 = swarm.choice([0.0, 0.15, 0.3])
        p_bf = swarm.choice([0.0, 0.1])
    for r in prog:
        sched.append(["op", 0, r["id"]])
        if p_f5 and r["out"] and frng.random() < p_f5:
            sched.append(["fault", "f5", 0, frng.choice(r["out"]), frng.choice(["consume_transpose", "copy", "relazy", "relazy"]), frng.randrange(1 << 30)])
        if arm == "disturbed" and p_bf and frng.random() < p_bf:
            sched.append(["fault", "cache", frng.choice([["clear_all"], ["resize", frng.choice(core.CACHE_SIZES)]])])
    return {"format": 1, "property": prop, "engine": "E1", "arm": arm, "seed": seed, "world": world, "tasks": [ts],
            "schedule": sched, "inner": {}, "mode": "draw", "rejected": getattr(t, "rejected", [])}


def apply_f5(task, slot, kind, vseed):
    import random
    x = task.slots.get(slot)
    if not isinstance(x, yastn.Tensor):
        return False
    before = tuple(x.trans)
    if kind == "consume_transpose":
        y = x.consume_transpose()
    elif kind == "copy":
        y = x.copy()
    else:
        if x.ndim < 2:
            return False
        r = random.Random(vseed)
        p = list(range(x.ndim))
        r.shuffle(p)
        inv = [p.index(i) for i in range(x.ndim)]
        y = x.transpose(axes=tuple(p)).consume_transpose().transpose(axes=tuple(inv))
    task.slots[slot] = y
    return before != tuple(y.trans)


def simulate(case, draw, after_op, on_exception=None, shadow=True):
    """after_op(world, task, rec, outs): oracles; on_exception(world, task, rec, exc) -> None (may raise Violation)."""
    wcfg = case["world"]
    kw = dict(cache_impl=wcfg["cache_impl"], maxsize=wcfg["maxsize"], lapack=True)
    w = core.World(case["seed"], fc=wcfg.get("fc", {}), **kw) if draw else core.World(case["seed"], plan=case.get("inner", {}), **kw)
    w.prop = case["property"]
    ts = case["tasks"][0]
    task = e1.task_from_spec(ts)
    progs = {r["id"]: r for r in ts["program"]}
    task.progs = progs          # ancestry of a slot (which ops produced it) is needed to attribute known findings by the state that fails
    info = {"f5": 0, "f5_effective": 0, "exceptions": 0, "checked_outputs": 0}
    changed = set()
    try:
        for ev in case["schedule"]:
            if ev[0] == "fault":
                if ev[1] == "f5":
                    _, _, tid, slot, kind, vseed = ev
                    if slot in task.slots:
                        w.begin_op(0, "f%d" % slot)
                        info["f5"] += 1
                        if apply_f5(task, slot, kind, vseed):
                            changed.add(slot)
                else:
                    w.cur_task, w.cur_uid = None, None
                    w.apply_cache_fault(list(ev[2]))
                continue
            rec = progs.get(ev[2])
            if rec is None or not all(s in task.slots for s in rec["in"]):
                continue
            w.begin_op(0, rec["id"])
            w.stats["ops"] += 1
            w.stats["events"] += 1
            if any(s in changed for s in rec["in"]):
                info["f5_effective"] += 1
            try:
                outs, shs = e1.execute(task, rec, w, shadow=shadow)
            except core.Violation as vio:
                if vio.prop != case["property"]:
                    # an oracle of another property living inside a shared op (E2/E3 ops carry C06-C12 oracles): not this check's business
                    w.probes["foreign_oracle_%s_ignored" % vio.prop] += 1
                    continue
                raise
            except Exception as e:  # noqa: BLE001
                info["exceptions"] += 1
                if on_exception is not None:
                    on_exception(w, task, rec, e)
                continue
            info["checked_outputs"] += len(outs)
            after_op(w, task, rec, outs)
            v = w.take_violation()
            if v is not None and v.prop == case["property"]:
                raise v
        w.close()
        return None, w, info
    except core.Violation as v:
        try:
            w.close()
        except Exception:  # noqa: BLE001
            pass
        v.where.setdefault("arm", case["arm"])
        return v.as_dict(), w, info


def result(case, v, w, info, seed, sample_every=400, extra_nontrivial=False):
    case["inner"] = dict(w.inner_fired)
    case["mode"] = "plan"
    st = dict(w.stats)
    st.update(info)
    st["fault_f5_buggify"] = info["f5"]
    st["effective_f5_state_change_consumed"] = info["f5_effective"]
    st["effective_refill_after_disturbance"] = st.pop("refill_after_disturbance", 0)
    st["effective_lapack_fallback"] = st.get("fault_lapack_fail", 0)
    st["gen_rejected_ops"] = len(case.get("rejected", []))
    disturbed_effective = (info["f5_effective"] > 0 or st["effective_refill_after_disturbance"] > 0 or st["effective_lapack_fallback"] > 0
                           or (case["arm"] == "disturbed" and _knobs_differ(case)))
    nontrivial = info["checked_outputs"] >= 4 and (case["arm"] == "baseline" or disturbed_effective) or extra_nontrivial
    return {"violation": v, "case": case if v else None, "stats": st, "probes": dict(w.probes),
            "digest": e1run.schedule_digest(case), "nontrivial": bool(nontrivial), "arm": case["arm"],
            "sample": e1run.brief_case(case, maxops=6) if seed % sample_every == 0 else None,
            "disturbed_effective": bool(disturbed_effective),
            "ops_seen": sorted({r["op"] + ":" + str(r["args"].get("kind", "")) for r in case["tasks"][0]["program"]})}


def _knobs_differ(case):
    cfg = case["tasks"][0]["config"]
    return any(cfg.get(k) != v for k, v in REF.items())


def extra_evidence(results):
    ops = set()
    base = dist = deff = 0
    for r in results:
        ops.update(r.get("ops_seen", []))
        if r.get("arm") == "baseline":
            base += 1
        else:
            dist += 1
            deff += 1 if r.get("disturbed_effective") else 0
    return {"op_kinds_exercised": sorted(ops), "n_op_kinds_exercised": len(ops), "baseline_runs": base, "disturbed_runs": dist,
            "disturbed_runs_with_effective_disturbance": deff}
