"""Shared machinery for E1 (tensor world) properties: twin families, cold generation pass,
interleaved simulated execution under a schedule with boundary and inner faults."""
import copy
import hashlib
import json

import numpy as np

from . import core, e1
from .core import yastn
from .models.group import Sym
from .models.dense import ULeg

PARITY_SYMS = ("Z2", "U1", "U1xU1", "U1xU1xZ2")
POLICIES = ("fuse_to_matrix", "fuse_contracted", "no_fusion")


def fermionic_choices(sym):
    n = Sym(sym).nsym
    if sym not in PARITY_SYMS:
        return [False]
    out = [False, True]
    if n == 2:
        out += [[True, False], [False, True]]
    if n == 3:
        out += [[True, True, False], [False, False, True], [True, False, True]]
    return out


TWIN_SYM_FAMILIES = [
    ["Z2", "U1", "Z3"],
    ["Z2", "U1"],
    ["U1", "Z3"],
    ["Z2xU1", "U1xU1"],
    ["U1xU1"],
    ["U1xU1xZ2"],
    ["U1"],
    ["Z2"],
    ["dense"],
]


def strict_sym_of(family):
    """The member whose group law is the strictest (integers): blocks legal under it are
    legal under every member (charges are taken from {0,1} per component)."""
    for s in ("U1", "U1xU1", "U1xU1xZ2", "Z3", "Z2", "Z2xU1", "dense"):
        if s in family:
            return s
    return family[0]


def gen_twin_family(rng, ntasks=None):
    """Task specs of a twin family: same skeleton, differing in what a cache key might forget."""
    fam = rng.choice(TWIN_SYM_FAMILIES)
    ntasks = ntasks or rng.randint(2, 4)
    strict = strict_sym_of(fam)
    ssym = Sym(strict)
    # universe in the strict symmetry with charges in {0,1}: legal and canonical for every member
    base_uni = e1.gen_universe(ssym, rng, maxsec=3, twin_safe=True)
    specs = []
    base_policy = rng.choice(POLICIES)
    base_fusion = rng.choice(["hard", "meta"])
    base_dtype = "float64"
    for tid in range(ntasks):
        sym = fam[tid % len(fam)] if rng.random() < 0.8 else rng.choice(fam)
        cfg = {"sym": sym, "fermionic": rng.choice(fermionic_choices(sym)),
               "tensordot_policy": base_policy if rng.random() < 0.7 else rng.choice(POLICIES),
               "default_fusion": base_fusion if rng.random() < 0.7 else rng.choice(["hard", "meta"]),
               "force_fusion": None, "dtype": base_dtype}
        dperm = rng.random() < 0.25
        uni = []
        for u in base_uni:
            Ds = list(u.Ds)[::-1] if dperm else list(u.Ds)
            uni.append(ULeg(Sym(sym), 1, [Sym(sym).canon(t) for t in u.ts], Ds) if _distinct(Sym(sym), u.ts) else
                       ULeg(Sym(sym), 1, list(dict.fromkeys(Sym(sym).canon(t) for t in u.ts)),
                            Ds[:len(set(Sym(sym).canon(t) for t in u.ts))]))
        specs.append({"id": tid, "config": cfg, "universe": [u.to_json() for u in uni],
                      "tags": {"sym": sym, "fermionic": json.dumps(cfg["fermionic"]), "history": int(dperm),
                               "policy": cfg["tensordot_policy"], "fusion": cfg["default_fusion"]},
                      "strict": strict})
    return specs


def _distinct(sym, ts):
    c = [sym.canon(t) for t in ts]
    return len(set(c)) == len(c)


# ---- explicit-blocks creation (twin layouts) ------------------------------------------------

@e1.register
class OpBlocks(e1.Op):
    """Tensor() + set_block for an explicit block list chosen by the *strict* group law of the
    twin family, so that struct and slices coincide across the family's symmetries."""
    name = "blocks"
    creates = True
    readback = True

    def gen(self, g, strict=None):
        rng = g.rng
        t = g.task
        strict = Sym(strict or t.cfgspec["sym"])
        r = rng.choice([1, 2, 2, 3, 3, 3, 4, 4])
        specs = []
        for _ in range(r):
            if specs and rng.random() < 0.3:
                p = rng.choice(specs)
                specs.append([p[0], 1 - p[1], None])
            else:
                specs.append([rng.randrange(len(t.universe)), rng.randint(0, 1), None])
        if t.sym.nsym == 0:
            return {"op": "blocks", "in": [], "args": {"legs": specs, "n": [], "blocks": [[0] * r], "dtype": "float64"}}
        import itertools
        ulegs = [e1._uleg(t, sp) for sp in specs]
        # strict-law view of the same charges (same integers; universe charges are in {0,1})
        combos = list(itertools.product(*[range(len(u.ts)) for u in ulegs]))
        rng.shuffle(combos)
        want = None
        blocks = []
        for c in combos:
            ts = [ulegs[k].ts[i] for k, i in enumerate(c)]
            ss = [u.s for u in ulegs]
            if len(ts[0]) != strict.nsym:
                n = t.sym.fuse(ts, ss)
            else:
                n = strict.fuse(ts, ss)
            if any(x not in (0, 1) for x in n):
                continue
            if want is None:
                want = n
            if n == want:
                blocks.append(list(c))
        if want is None:
            return None
        if rng.random() < 0.3 and len(blocks) > 1:
            blocks = blocks[:rng.randint(1, len(blocks))]
        blocks.sort()
        return {"op": "blocks", "in": [], "args": {"legs": specs, "n": list(t.sym.canon(want)), "blocks": blocks,
                                                  "dtype": "complex128" if rng.random() < 0.25 else "float64"}}

    def run(self, task, rec, ins):
        a = rec["args"]
        ulegs = [e1._uleg(task, sp) for sp in a["legs"]]
        s = tuple(u.s for u in ulegs)
        if task.sym.nsym == 0:
            x = yastn.Tensor(config=task.cfg, s=s, dtype=a["dtype"])
            x.set_block(Ds=tuple(u.Ds[0] for u in ulegs), val="rand")
            return [x]
        x = yastn.Tensor(config=task.cfg, s=s, n=tuple(a["n"]), dtype=a["dtype"])
        for c in a["blocks"]:
            ts = tuple(ulegs[k].ts[i] for k, i in enumerate(c))
            Ds = tuple(ulegs[k].Ds[i] for k, i in enumerate(c))
            x.set_block(ts=ts, Ds=Ds, val="rand")
        return [x]

    def shadow(self, task, rec, sins, outs, ins=None):
        a = rec["args"]
        axes = [e1._uleg(task, sp) for sp in a["legs"]]
        arr = e1.obs_dense(task, outs[0], axes)
        return [e1.Shadow(arr, axes, ["e"] * len(axes), tuple(a["n"]), task.sym)]


# ---- digests of op outputs ----------------------------------------------------------------------

def out_digest(value):
    if isinstance(value, yastn.Tensor):
        return hashlib.sha256(repr(core.tensor_canon(value, with_config=False)).encode()).hexdigest()[:20]
    from .containers import parts, meta_of
    m = meta_of(value)
    if m is not None:       # container (MPS/MPO, PEPS, environment, stepped worker): metadata + every tensor it holds, bit by bit
        return hashlib.sha256(repr([core.canon(m), [(k, core.tensor_canon(t, with_config=False)) for k, t in sorted(parts(value).items())]]).encode()).hexdigest()[:20]
    if type(value).__name__ in ("EnvShadow", "PShadow"):
        return "-"
    return core.digest(value)


def step_digests(task, rec):
    """Digests of everything an op produced: its outputs and, for the documented in-place API, the receiver afterwards."""
    d = [out_digest(task.slots[s]) for s in rec["out"]]
    if e1.OPS[rec["op"]].inplace and rec["in"]:
        d.append(out_digest(task.slots[rec["in"][0]]))
    return d


def exc_digest(e):
    return "EXC:" + type(e).__name__


# ---- cold generation pass ---------------------------------------------------------------------------

def generate_cold(seed, spec, rng, nops, weights, seed_ops=("blocks",), on_op=None, shadow=True, cache_impl="off"):
    """Generate the program of one task alone, cache seam off, fresh world.
    Returns (program, {uid: [digests of outputs]}, task)."""
    w = core.World(seed, cache_impl=cache_impl, lapack=False)
    w.generating = True      # oracles living inside ops stay silent during the generation pass
    try:
        task = e1.task_from_spec(spec)
        digs = {}

        def rec_dig(task_, rec):
            digs[rec["id"]] = step_digests(task_, rec)
            if on_op is not None:
                on_op(task_, rec)
        prog = _generate(task, rng, w, nops, weights, rec_dig, seed_ops, spec.get("strict"))
    finally:
        w.close()
    return prog, digs, task


def _generate(task, rng, world, nops, weights, on_op, seed_ops, strict):
    wts = dict(e1.DEFAULT_WEIGHTS if weights is None else weights)
    wts = {k: v for k, v in wts.items() if k in e1.OPS}
    names = sorted(wts)
    g = e1.Gen(task, rng, world)
    g.strict = strict
    done = set()

    def flush():
        for r in g.program:
            if r["id"] not in done:
                done.add(r["id"])
                on_op(task, r)

    def attempt(name):
        op = e1.OPS[name]
        n0 = len(g.program)
        try:
            rec = op.gen(g, strict=strict) if name == "blocks" else op.gen(g)
            flush()
            if rec is None:
                return
            g.emit(rec)
            flush()
        except core.Violation:
            raise
        except Exception as e:  # noqa: BLE001
            # an op the generator believed valid raised: it STAYS in the program (without outputs), so that the
            # simulated run meets it again and the property's exception policy decides; counted as 'rejected'
            bad = getattr(e, "verif_rec", None)
            g.rejected = getattr(g, "rejected", [])
            g.rejected.append((bad or {}).get("op", name) + ": " + type(e).__name__ + ": " + str(e)[:120])
            if bad is not None:
                for s in bad.get("out", []):
                    task.slots.pop(s, None)
                    task.shadows.pop(s, None)
                done.add(bad["id"])
            else:
                raise
    for name in seed_ops:
        attempt(name)
        attempt(name)
    tries = 0
    while len(g.program) < nops and tries < nops * 8:
        tries += 1
        attempt(rng.choices(names, [wts[k] for k in names])[0])
    task.rejected = getattr(g, "rejected", [])
    return g.program


# ---- simulated execution ----------------------------------------------------------------------------------

def make_schedule(rng, tasks_programs, policy, p_fault, fault_kinds):
    """Interleaving of task steps (program order inside a task) with boundary faults."""
    pending = {tid: [r["id"] for r in prog] for tid, prog in tasks_programs.items()}
    tids = sorted(pending)
    sched = []
    cur = tids[0] if tids else None
    rr = 0
    while any(pending.values()):
        live = [t for t in tids if pending[t]]
        if policy == "round_robin":
            cur = live[rr % len(live)]
            rr += 1
        elif policy == "random":
            cur = rng.choice(live)
        elif policy == "bursty":
            if cur not in live or rng.random() < 0.25:
                cur = rng.choice(live)
        elif policy == "sequential":
            cur = live[0]
        else:  # twin_chase: after a step of task t run the same-index step of another task
            if cur not in live:
                cur = rng.choice(live)
            else:
                others = [t for t in live if t != cur]
                cur = rng.choice(others) if others and rng.random() < 0.8 else cur
        if p_fault and rng.random() < p_fault:
            kind = rng.choice(fault_kinds)
            if kind == "resize":
                sched.append(["fault", "resize", rng.choice(core.CACHE_SIZES)])
            else:
                sched.append(["fault", kind])
        sched.append(["op", cur, pending[cur].pop(0)])
    return sched


def run_case(case, on_step, shadow=False, world_kw=None):
    """Execute a case (tasks + schedule + inner plan or fault config) in one world.
    on_step(world, task, rec, outs_or_exc) is called after every op.  Returns the world."""
    wcfg = case["world"]
    kw = dict(cache_impl=wcfg.get("cache_impl", "real"), maxsize=wcfg.get("maxsize", "default"),
              lapack=wcfg.get("lapack", True), check_hits=wcfg.get("check_hits", False))
    if world_kw:
        kw.update(world_kw)
    if case.get("mode", "plan") == "plan":
        w = core.World(case["seed"], plan=case.get("inner", {}), **kw)
    else:
        w = core.World(case["seed"], fc=wcfg.get("fc", {}), **kw)
    try:
        tasks = {}
        progs = {}
        for ts in case["tasks"]:
            t = e1.task_from_spec(ts)
            tasks[ts["id"]] = t
            progs[ts["id"]] = {r["id"]: r for r in ts["program"]}
            w.task_tags[ts["id"]] = ts.get("tags", {})
        for ev in case["schedule"]:
            if ev[0] == "fault":
                w.cur_task, w.cur_uid = None, None
                act = [ev[1]] + list(ev[2:])
                w.apply_cache_fault(act)
                w.stats["events"] += 1
                continue
            _, tid, uid = ev
            task, rec = tasks[tid], progs[tid][uid]
            w.begin_op(tid, uid)
            w.stats["events"] += 1
            w.stats["ops"] += 1
            try:
                outs, _ = e1.execute(task, rec, w, shadow=shadow)
                res = outs
            except core.Violation:
                raise
            except Exception as e:  # noqa: BLE001 -- classified by the property
                res = e
            on_step(w, task, rec, res)
            v = w.take_violation()
            if v is not None:
                raise v
        w.close()
        v = w.take_violation()
        if v is not None:
            raise v
    finally:
        if core.current_world() is w:
            try:
                w.close()
            except Exception:
                pass
    return w


def schedule_digest(case, inner_fired=None):
    h = hashlib.sha256()
    h.update(json.dumps(case["schedule"], sort_keys=True).encode())
    h.update(json.dumps(sorted((inner_fired if inner_fired is not None else case.get("inner", {})).items())).encode())
    for t in case["tasks"]:
        h.update(json.dumps([t["config"], [[r["op"], r["in"], r["args"]] for r in t["program"]]], sort_keys=True, default=str).encode())
    return h.hexdigest()[:24]


def brief_case(case, maxops=8):
    """Small, readable sample of a case for evidence files."""
    return {"tasks": [{"config": t["config"], "program": [[r["op"], r["in"], r["args"]] for r in t["program"][:maxops]],
                       "n_ops": len(t["program"])} for t in case["tasks"]],
            "schedule": case["schedule"][:24], "n_events": len(case["schedule"]),
            "inner_faults": dict(list(case.get("inner", {}).items())[:8]), "world": case["world"]}
