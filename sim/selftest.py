"""Determinism self-test: ./check.py selftest [IDs...] [--runs N] [--seed S]

Every property's search is run three times on the same seeds, each in fresh interpreters:
  A: 16 workers, PYTHONHASHSEED=0      B: 3 workers, PYTHONHASHSEED=0      C: 16 workers, PYTHONHASHSEED=12345
and the per-run lines (seed, digest of program+schedule+fired faults, digest of all stats/probes/violations observed)
are diffed.  Any difference means a source of nondeterminism escaped the seams: exit 1.
"""
import argparse
import json
import os
import subprocess
import sys
import tempfile
import time

HERE = os.path.dirname(os.path.dirname(os.path.abspath(__file__)))
ALL = ["C01", "C02", "C03", "C04", "C05", "C06", "C07", "C08", "C09", "C10", "C11", "C12", "C13", "C14", "C15", "C16", "C17"]
DEFAULT_RUNS = {"C09": 48, "C10": 32, "C12": 48}


def one(pid, runs, seed, workers, hashseed, out):
    env = dict(os.environ)
    env["VERIF_HASHSEED"] = str(hashseed)
    env.pop("PYTHONHASHSEED", None)
    cmd = [os.path.join(HERE, "check.py"), pid, "--runs", str(runs), "--seed", str(seed), "--workers", str(workers), "--no-evidence", "--no-minimise", "--dump-logs", out]
    p = subprocess.run(cmd, cwd=HERE, env=env, stdout=subprocess.PIPE, stderr=subprocess.STDOUT, text=True, timeout=3600)
    return p.returncode, p.stdout[-400:]


def main(argv):
    ap = argparse.ArgumentParser(prog="check.py selftest")
    ap.add_argument("cmd")
    ap.add_argument("ids", nargs="*")
    ap.add_argument("--runs", type=int, default=None)
    ap.add_argument("--seed", type=int, default=int(os.environ.get("VERIF_SEED", "0") or 0))
    ap.add_argument("--out", default=os.path.join(HERE, "evidence", "selftest.json"))
    a = ap.parse_args(argv)
    ids = [i.upper() for i in a.ids] or ALL
    report, bad = {}, 0
    t0 = time.time()
    with tempfile.TemporaryDirectory(prefix="verif-selftest-") as tmp:
        for pid in ids:
            runs = a.runs or DEFAULT_RUNS.get(pid, 96)
            logs = {}
            for tag, workers, hs in (("A", 16, 0), ("B", 3, 0), ("C", 16, 12345)):
                f = os.path.join(tmp, "%s-%s.log" % (pid, tag))
                rc, tail = one(pid, runs, a.seed, workers, hs, f)
                logs[tag] = open(f).read().splitlines() if os.path.exists(f) else ["<no log: exit %d> %s" % (rc, tail)]
            diff_ab = [(x, y) for x, y in zip(logs["A"], logs["B"]) if x != y]
            diff_ac = [(x, y) for x, y in zip(logs["A"], logs["C"]) if x != y]
            same_len = len(logs["A"]) == len(logs["B"]) == len(logs["C"]) == runs
            ok = same_len and not diff_ab and not diff_ac
            report[pid] = {"runs": runs, "lines": len(logs["A"]), "identical_16_vs_3_workers": not diff_ab and same_len,
                           "identical_hashseed_0_vs_12345": not diff_ac and same_len, "first_differences": (diff_ab + diff_ac)[:3]}
            print("selftest %s: %s (%d runs x 3 executions)" % (pid, "deterministic" if ok else "DIVERGES", runs), flush=True)
            if not ok:
                bad += 1
                for x, y in (diff_ab + diff_ac)[:3]:
                    print("   ", x, "|", y)
    out = {"what": "same seeds executed 3 times in fresh interpreters (16 workers / 3 workers / other PYTHONHASHSEED); per-run digests of program+schedule+fired faults and of all observed stats/probes/violations compared",
           "seed": a.seed, "wall_s": round(time.time() - t0, 1), "properties": report, "all_deterministic": bad == 0}
    try:
        with open(a.out, "w") as f:
            json.dump(out, f, indent=1)
    except OSError:
        pass
    return 1 if bad else 0
