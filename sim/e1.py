"""E1 — the tensor world: op catalogue (generate / run on yastn / run on the dense shadow).

A program is a list of op records {"id": uid, "op": name, "in": [slot...], "out": [slot...],
"args": {...}}; it is data (JSON).  Generation looks at the live slots (shadow metadata and
the real tensors); execution never consults the generator.
"""
import itertools

import numpy as np

from . import core
from .core import yastn
from .models.group import Sym, yastn_sym_arg
from .models.dense import ULeg, Shadow, n_leaves, tree_to_hard, has_meta, shape_of, allowed_mask, depth

YastnError = yastn.YastnError


# ----------------------------------------------------------------------------------
# task = one program over its own slot table under one configuration
# ----------------------------------------------------------------------------------

class Task:
    def __init__(self, tid, cfgspec, universe=None):
        self.id = tid
        self.cfgspec = dict(cfgspec)
        self.sym = Sym(cfgspec["sym"])
        self.cfg = make_cfg(cfgspec)
        self.universe = universe      # list[ULeg] (s=+1)
        self.slots = {}               # slot id -> value (Tensor | number | dict ...)
        self.shadows = {}             # slot id -> Shadow | number | None
        self.extra_ulegs = {}         # name -> ULeg created by ops (add_leg, masks)
        self.next_slot = 0

    def new_slot(self):
        s = self.next_slot
        self.next_slot += 1
        return s

    def spec(self):
        return {"id": self.id, "config": self.cfgspec,
                "universe": [u.to_json() for u in self.universe]}


def make_cfg(spec):
    f = spec.get("fermionic", False)
    if isinstance(f, list):
        f = tuple(f)
    return yastn.make_config(sym=yastn_sym_arg(spec["sym"]), fermionic=f,
                             default_dtype=spec.get("dtype", "float64"),
                             default_fusion=spec.get("default_fusion", "hard"),
                             force_fusion=spec.get("force_fusion", None),
                             tensordot_policy=spec.get("tensordot_policy", "fuse_to_matrix"))


def task_from_spec(spec):
    if spec.get("engine") == "E2":
        from . import e2
        return e2.task_from_spec(spec)
    if spec.get("engine") == "E3":
        from . import e3
        return e3.task_from_spec(spec)
    sym = Sym(spec["config"]["sym"])
    uni = [ULeg.from_json(sym, d) for d in spec["universe"]]
    return Task(spec["id"], spec["config"], uni)


# ----------------------------------------------------------------------------------
# universe generation
# ----------------------------------------------------------------------------------

def charge_box(sym, rng, wide=False):
    out = []
    for m in sym.mods:
        if m:
            out.append(list(range(m)))
        else:
            out.append([-1, 0, 1, 2] if not wide else [-2, -1, 0, 1, 2, 3])
    return out


def gen_universe(sym, rng, nlegs=None, maxsec=4, maxD=3, twin_safe=False, uniform_D=False):
    sym = sym if isinstance(sym, Sym) else Sym(sym)
    nlegs = nlegs or rng.randint(2, 4)
    legs = []
    for _ in range(nlegs):
        if sym.nsym == 0:
            legs.append(ULeg(sym, 1, [()], [rng.randint(1, maxD + 1)]))
            continue
        if twin_safe:
            cands = [tuple(c) for c in itertools.product(*[[0, 1]] * sym.nsym)]
        else:
            cands = [tuple(c) for c in itertools.product(*charge_box(sym, rng))]
        k = rng.randint(1, min(maxsec, len(cands)))
        ts = rng.sample(cands, k)
        Ds = [rng.choice([1, 1, 2, 2, 3] if maxD >= 3 else [1, 2][:maxD]) for _ in ts]
        if uniform_D:       # every sector of every leg has the same dimension: fusion histories that differ in charges only
            Ds = [uniform_D] * len(ts)
        legs.append(ULeg(sym, 1, ts, Ds))
    return legs


# ----------------------------------------------------------------------------------
# observation
# ----------------------------------------------------------------------------------

def unfuse_all(x):
    """Complete unfusing through the public API."""
    if x.isdiag:
        return x
    for _ in range(12):
        legs = x.get_legs()
        fused = tuple(i for i, l in enumerate(legs) if l.is_fused())
        if not fused:
            return x
        x = x.unfuse_legs(axes=fused)
    raise RuntimeError("unfuse_all did not terminate")


def obs_dense(task, x, axes):
    """Dense array of x over the elementary universe legs `axes` (through to_numpy)."""
    y = unfuse_all(x)
    if y.isdiag:
        lg = {0: axes[0].yleg(yastn, task.cfg)}
        return y.to_numpy(legs=lg)
    if y.ndim != len(axes):
        raise core.Violation("C01", "rank-after-unfuse", "rank %d after complete unfusing, model says %d" % (y.ndim, len(axes)))
    lg = {i: u.yleg(yastn, task.cfg) for i, u in enumerate(axes)}
    return y.to_numpy(legs=lg)


def native_reassemble(x):
    """Independent re-assembly of the dense array in the *native* basis from x[key] and
    get_legs(native=True): nothing but block access and leg descriptions is used."""
    legs = x.get_legs(native=True)
    if x.isdiag:
        legs = legs[:1] + legs[:1]
    nsym = x.config.sym.NSYM
    offs = []
    for l in legs:
        o, acc = {}, 0
        for t, d in zip(l.t, l.D):
            o[tuple(t)] = (acc, acc + d)
            acc += d
        offs.append((o, acc))
    shape = tuple(acc for _, acc in offs)
    out = None
    nblocks = 0
    if x.isdiag:
        out = np.zeros(shape, dtype=x.dtype)
        for t in legs[0].t:
            try:
                blk = x[tuple(t) + tuple(t)]
            except YastnError:
                continue
            nblocks += 1
            a, b = offs[0][0][tuple(t)]
            out[a:b, a:b] = np.diag(blk)
        return out, nblocks
    out = np.zeros(shape, dtype=x.dtype)
    if nsym == 0:
        try:
            blk = x[()]
            out[...] = blk
            nblocks = 1
        except YastnError:
            pass
        return out, nblocks
    ss = [l.s for l in legs]
    n = np.array(x.n)
    for combo in itertools.product(*[l.t for l in legs]):
        key = tuple(itertools.chain(*combo))
        try:
            blk = x[key]
        except YastnError:
            continue
        nblocks += 1
        sl = tuple(slice(*offs[k][0][tuple(t)]) for k, t in enumerate(combo))
        out[sl] = blk
    return out, nblocks


# ----------------------------------------------------------------------------------
# helpers shared by ops
# ----------------------------------------------------------------------------------

def _yleg(task, spec):
    """spec = [uref, conj, subset]; uref = int index into universe or str name of an extra leg."""
    u = _uleg(task, spec)
    sub = spec[2]
    return u.yleg(yastn, task.cfg, sub)


def _uleg(task, spec):
    uref, cj = spec[0], spec[1]
    if isinstance(uref, int):
        u = task.universe[uref]
    elif isinstance(uref, dict):       # inline description of a leg created by an op (add_leg, mask, svd)
        u = ULeg.from_json(task.sym, uref)
    else:
        u = task.extra_ulegs[uref]
    return u.conj() if cj else u


def _dt(task, rec):
    return rec["args"].get("dtype", "float64")


def tensors(task, pred=None, allow_bool=False):
    out = []
    for s, v in task.slots.items():
        if isinstance(v, yastn.Tensor) and (allow_bool or v.yastn_dtype != "bool") and (pred is None or pred(s, v, task.shadows.get(s))):
            out.append(s)
    return out


def _tol(*arrs):
    m = 1.0
    for a in arrs:
        if isinstance(a, np.ndarray) and a.size:
            m = max(m, float(np.max(np.abs(a))))
        elif not isinstance(a, np.ndarray):
            m = max(m, abs(a))
    return 1e-11 * m


# ----------------------------------------------------------------------------------
# op registry
# ----------------------------------------------------------------------------------

OPS = {}


class Op:
    name = None
    listed_c01 = False     # is the op in the list of C01 (result promised where model says valid)
    creates = False        # needs reseed of the backend RNG
    readback = False       # shadow is read from the real result (inputs / gauge dependent factors)
    inplace = False        # documented in-place API (mutator)
    shares = False         # result may legally share storage with operand

    def gen(self, g):      # -> rec without id/out, or None
        raise NotImplementedError

    def run(self, task, rec, ins):   # -> list of outputs
        raise NotImplementedError

    def shadow(self, task, rec, sins, outs):  # -> list of shadows
        return [None] * len(outs)


def register(cls):
    inst = cls()
    OPS[inst.name] = inst
    return cls


class Gen:
    """Generation context: rng + task; emits op records (assigning ids and out slots)."""

    def __init__(self, task, rng, allow=None, weights=None):
        self.task = task
        self.rng = rng
        self.allow = allow
        self.weights = weights or {}
        self.uid = 0

    def sh(self, s):
        return self.task.shadows.get(s)

    def val(self, s):
        return self.task.slots[s]

    def pick_tensor(self, pred=None):
        c = tensors(self.task, pred)
        if not c:
            return None
        # bias to recent slots: histories matter
        if self.rng.random() < 0.5:
            c = c[-4:]
        return self.rng.choice(c)

    def leg_spec(self, conj=None, full=None):
        u = self.rng.randrange(len(self.task.universe))
        U = self.task.universe[u]
        cj = self.rng.randint(0, 1) if conj is None else conj
        if (self.rng.random() < 0.7 if full is None else full) or len(U.ts) == 1:
            sub = None
        else:
            k = self.rng.randint(1, len(U.ts))
            sub = sorted(self.rng.sample(range(len(U.ts)), k))
        return [u, cj, sub]

    def reachable_n(self, specs):
        """Pick a tensor charge for which at least one block exists (mostly)."""
        t = self.task
        if t.sym.nsym == 0:
            return []
        ts, ss = [], []
        for sp in specs:
            U = _uleg(t, sp)
            idx = sp[2] if sp[2] is not None else list(range(len(U.ts)))
            ts.append(U.ts[self.rng.choice(idx)])
            ss.append(U.s)
        n = t.sym.fuse(ts, ss)
        if self.rng.random() < 0.35:
            return list(t.sym.zero())
        return list(n)


# ---- creation ------------------------------------------------------------------------

@register
class OpRand(Op):
    name = "rand"
    creates = True
    readback = True

    def gen(self, g, specs=None, n=None, dtype=None):
        rng = g.rng
        if specs is None:
            r = rng.choice([0, 1, 2, 2, 3, 3, 3, 4, 4, 5, 6])
            specs = []
            for _ in range(r):
                if specs and rng.random() < 0.3:
                    # conj partner of an existing leg: makes traces / self-contractions possible
                    p = rng.choice(specs)
                    specs.append([p[0], 1 - p[1], p[2] if rng.random() < 0.6 else None])
                else:
                    specs.append(g.leg_spec())
        if n is None:
            n = g.reachable_n(specs)
        if dtype is None:
            dtype = "complex128" if rng.random() < 0.3 else "float64"
        dist = rng.choice(["rand", "rand", "rand", "normal", "ones", "zeros"])
        return {"op": "rand", "in": [], "args": {"legs": specs, "n": n, "dtype": dtype, "dist": dist}}

    def run(self, task, rec, ins):
        a = rec["args"]
        legs = [_yleg(task, sp) for sp in a["legs"]]
        n = tuple(a["n"]) if task.sym.nsym else None
        f = {"rand": yastn.rand, "normal": yastn.rand, "ones": yastn.ones, "zeros": yastn.zeros}[a["dist"]]
        kw = {"distribution": "normal"} if a["dist"] == "normal" else {}
        return [f(task.cfg, legs=legs, n=n, dtype=a["dtype"], **kw)]

    def shadow(self, task, rec, sins, outs):
        a = rec["args"]
        axes = [_uleg(task, sp) for sp in a["legs"]]
        arr = obs_dense(task, outs[0], axes)
        n = tuple(a["n"]) if task.sym.nsym else ()
        return [Shadow(arr, axes, ["e"] * len(axes), n, task.sym)]


@register
class OpRandDiag(Op):
    name = "rand_diag"
    creates = True
    readback = True

    def gen(self, g):
        sp = g.leg_spec()
        kind = g.rng.choice(["rand", "rand", "eye", "mask"])
        dtype = "complex128" if (kind == "rand" and g.rng.random() < 0.3) else "float64"
        return {"op": "rand_diag", "in": [], "args": {"leg": sp, "kind": kind, "dtype": dtype}}

    def run(self, task, rec, ins):
        a = rec["args"]
        leg = _yleg(task, a["leg"])
        if a["kind"] == "eye":
            return [yastn.eye(task.cfg, legs=[leg, leg.conj()], isdiag=True)]
        x = yastn.rand(task.cfg, legs=[leg, leg.conj()], isdiag=True, dtype=a["dtype"])
        if a["kind"] == "mask":
            x = x > 0.0
        return [x]

    def shadow(self, task, rec, sins, outs):
        u = _uleg(task, rec["args"]["leg"])
        axes = [u, u.conj()]
        arr = obs_dense(task, outs[0], axes)
        if arr.dtype == bool:
            arr = arr.astype(np.float64)   # a mask is the numbers 0/1
        return [Shadow(arr, axes, ["e", "e"], task.sym.zero(), task.sym, isdiag=True)]


def like_specs(task, sh, rng, vary=True):
    """Leg specs (elementary, flattened order) for a fresh tensor with the structure of shadow sh."""
    specs = []
    for u in sh.axes:
        ref = find_uref(task, u)
        if ref is None:
            return None
        uref, cj = ref
        U = _uleg(task, [uref, cj, None])
        sub = None
        if vary and len(U.ts) > 1 and rng.random() < 0.4:
            k = rng.randint(1, len(U.ts))
            sub = sorted(rng.sample(range(len(U.ts)), k))
        specs.append([uref, cj, sub])
    return specs


def find_uref(task, u):
    for i, U in enumerate(task.universe):
        if U.key() == u.key():
            return (i, 0)
        if U.conj().key() == u.key():
            return (i, 1)
    for name, U in task.extra_ulegs.items():
        if U.key() == u.key():
            return (U.to_json(), 0)
        if U.conj().key() == u.key():
            return (U.to_json(), 1)
    return None




# ----------------------------------------------------------------------------------
# execution of one record
# ----------------------------------------------------------------------------------

def execute(task, rec, world, shadow=True):
    """Run one op record on the real code (and on the shadow).  Stores outputs."""
    op = OPS[rec["op"]]
    ins = [task.slots[s] for s in rec["in"]]
    if world is not None:
        world.krylov_calls = 0          # step budget of the Krylov probe (sim/e2w.py) is per op
    if op.creates and world is not None:
        world.reseed(getattr(task, "data_key", task.id), rec["id"])
    outs = op.run(task, rec, ins)
    if len(outs) != len(rec["out"]):
        raise RuntimeError("op %s returned %d outputs, record has %d" % (rec["op"], len(outs), len(rec["out"])))
    shs = [None] * len(outs)
    if shadow:
        sins = [task.shadows.get(s) for s in rec["in"]]
        if all(s is not None for s in sins):
            shs = op.shadow(task, rec, sins, outs, ins)
    # size bound of the dense model: a result with more than 4e6 dense elements is not tracked further (no comparison, not picked as an
    # operand by the generators, which all require a model value): keeps a seed from spending minutes in dense NumPy work
    shs = list(shs)
    for q, sh in enumerate(shs):
        arr = getattr(sh, "arr", None)
        if arr is not None and getattr(arr, "size", 0) > 4_000_000:
            shs[q] = None
            if world is not None:
                world.probes["model_value_too_large_not_tracked"] += 1
    for s, v, sh in zip(rec["out"], outs, shs):
        task.slots[s] = v
        task.shadows[s] = sh
    return outs, shs


def nout(rec):
    return OPS[rec["op"]].nout(rec)


Op.nout = lambda self, rec: 1
_old_shadow = Op.shadow
Op.shadow = lambda self, task, rec, sins, outs, ins=None: [None] * len(outs)


def _wrap_shadow(cls):
    """Shadows of the creation ops above were written with 4 arguments."""
    f = cls.shadow
    cls.shadow = lambda self, task, rec, sins, outs, ins=None: f(self, task, rec, sins, outs)


_wrap_shadow(OpRand)
_wrap_shadow(OpRandDiag)


def gen_emit(g, rec, world):
    rec["id"] = g.uid
    g.uid += 1
    rec["out"] = [g.task.new_slot() for _ in range(nout(rec))]
    execute(g.task, rec, world, shadow=True)
    g.program.append(rec)
    return rec["out"]


Gen.program = None


def _gen_init(self, task, rng, world=None, weights=None):
    self.task = task
    self.rng = rng
    self.world = world
    self.weights = weights or {}
    self.uid = 0
    self.program = []


Gen.__init__ = _gen_init
Gen.emit = lambda self, rec: gen_emit(self, rec, self.world)


def partner_same(g, a, allow_self=True, create=True):
    """A slot whose tensor has the same leg structure and charge as slot a."""
    sa = g.sh(a)
    if sa is None:
        return None
    key = sa.structkey()
    c = [s for s in tensors(g.task) if g.sh(s) is not None and g.sh(s).structkey() == key and (allow_self or s != a)]
    others = [s for s in c if s != a]
    if others and g.rng.random() < 0.7:
        return g.rng.choice(others)
    if create and not sa.any_fused():
        if sa.isdiag:
            ref = find_uref(g.task, sa.axes[0])
            if ref is not None:
                return g.emit({"op": "rand_diag", "in": [], "args": {"leg": [ref[0], ref[1], None if g.rng.random() < 0.6 else _subset(g, sa.axes[0])],
                                                                     "kind": "rand", "dtype": "float64"}})[0]
        else:
            specs = like_specs(g.task, sa, g.rng)
            if specs is not None:
                rec = OPS["rand"].gen(g, specs=specs, n=list(sa.n))
                return g.emit(rec)[0]
    if c and allow_self:
        return g.rng.choice(c)
    return None


def _subset(g, U):
    if len(U.ts) <= 1:
        return None
    k = g.rng.randint(1, len(U.ts))
    return sorted(g.rng.sample(range(len(U.ts)), k))


def conj_shadow(sh, flag=1):
    if not flag:
        return sh
    return Shadow(sh.arr.conj(), [u.conj() for u in sh.axes], sh.tree, sh.sym.neg(sh.n), sh.sym, sh.isdiag)


def legs_match(sa, i, sb, j):
    """Leg i of a can be contracted with leg j of b."""
    ka, kb = sa.legmatch(i), sb.legmatch(j)
    return ka[0] == kb[0] and ka[1] == kb[1] and all(x == -y for x, y in zip(ka[2], kb[2]))


# ---- linear -----------------------------------------------------------------------------

@register
class OpAdd(Op):
    name = "add"
    listed_c01 = True

    def gen(self, g):
        a = g.pick_tensor(lambda s, v, sh: sh is not None)
        if a is None:
            return None
        b = partner_same(g, a)
        if b is None:
            return None
        kind = g.rng.choice(["add", "sub", "amp"])
        args = {"kind": kind}
        ins = [a, b]
        if kind == "amp":
            if g.rng.random() < 0.5:
                # three operands; in half of the cases the last one is the first again (same fusion history as the first, whatever the middle one has)
                c = a if g.rng.random() < 0.5 else partner_same(g, a)
                if c is not None:
                    ins.append(c)
            cplx = g.sh(a).is_complex() or g.rng.random() < 0.2
            args["amps"] = [[round(g.rng.uniform(-2, 2), 3), round(g.rng.uniform(-2, 2), 3) if cplx else 0.0] for _ in ins]
        return {"op": "add", "in": ins, "args": args}

    def run(self, task, rec, ins):
        k = rec["args"]["kind"]
        if k == "add":
            return [ins[0] + ins[1]]
        if k == "sub":
            return [ins[0] - ins[1]]
        amps = [complex(*x) if x[1] else x[0] for x in rec["args"]["amps"]]
        return [yastn.add(*ins, amplitudes=amps)]

    def shadow(self, task, rec, sins, outs, ins=None):
        k = rec["args"]["kind"]
        a = sins[0]
        if k == "add":
            arr = sins[0].arr + sins[1].arr
        elif k == "sub":
            arr = sins[0].arr - sins[1].arr
        else:
            amps = [complex(*x) if x[1] else x[0] for x in rec["args"]["amps"]]
            arr = sum(c * s.arr for c, s in zip(amps, sins))
        return [Shadow(arr, a.axes, a.tree, a.n, a.sym, a.isdiag)]


@register
class OpScal(Op):
    name = "scal"
    listed_c01 = True

    def gen(self, g):
        a = g.pick_tensor(lambda s, v, sh: sh is not None)
        if a is None:
            return None
        kind = g.rng.choice(["mul", "rmul", "div", "neg"])
        x = [round(g.rng.uniform(-2, 2), 3) or 0.5, round(g.rng.uniform(-2, 2), 3) if g.rng.random() < 0.25 else 0.0]
        if g.rng.random() < 0.05 and kind != "div":
            x = [0.0, 0.0]
        return {"op": "scal", "in": [a], "args": {"kind": kind, "x": x}}

    def run(self, task, rec, ins):
        x = rec["args"]["x"]
        x = complex(*x) if x[1] else x[0]
        k = rec["args"]["kind"]
        a = ins[0]
        return [{"mul": lambda: a * x, "rmul": lambda: x * a, "div": lambda: a / x, "neg": lambda: -a}[k]()]

    def shadow(self, task, rec, sins, outs, ins=None):
        x = rec["args"]["x"]
        x = complex(*x) if x[1] else x[0]
        k = rec["args"]["kind"]
        a = sins[0]
        arr = {"mul": lambda: a.arr * x, "rmul": lambda: x * a.arr, "div": lambda: a.arr / x, "neg": lambda: -a.arr}[k]()
        return [Shadow(arr, a.axes, a.tree, a.n, a.sym, a.isdiag)]


@register
class OpConj(Op):
    name = "conj"
    listed_c01 = True
    shares = True

    def gen(self, g):
        a = g.pick_tensor()
        if a is None:
            return None
        return {"op": "conj", "in": [a], "args": {"kind": g.rng.choice(["conj", "conj", "conj_blocks", "flip_signature"])}}

    def run(self, task, rec, ins):
        return [getattr(ins[0], rec["args"]["kind"])()]

    def shadow(self, task, rec, sins, outs, ins=None):
        a, k = sins[0], rec["args"]["kind"]
        if k == "conj":
            return [conj_shadow(a)]
        if k == "conj_blocks":
            return [Shadow(a.arr.conj(), a.axes, a.tree, a.n, a.sym, a.isdiag)]
        return [Shadow(a.arr, [u.conj() for u in a.axes], a.tree, a.sym.neg(a.n), a.sym, a.isdiag)]


def _has_hard(node):
    if node == "e":
        return False
    return node[0] == "h" or any(_has_hard(c) for c in node[1])


@register
class OpFlipCharges(Op):
    """flip_charges(axes): (s, t) -> (-s, -t) on unfused or meta-fused legs; the same vector space, relabelled."""
    name = "flip"
    listed_c01 = True
    shares = True

    def gen(self, g):
        def ok(s, v, sh):
            return sh is not None and not sh.isdiag and sh.ndim >= 1 and any(not _has_hard(t) for t in sh.tree)
        a = g.pick_tensor(ok)
        if a is None:
            return None
        sa = g.sh(a)
        free = [i for i, t in enumerate(sa.tree) if not _has_hard(t)]
        if len(free) == sa.ndim and g.rng.random() < 0.25:
            return {"op": "flip", "in": [a], "args": {"axes": None}}
        k = g.rng.randint(1, len(free))
        axes = g.rng.sample(free, k)
        return {"op": "flip", "in": [a], "args": {"axes": axes if (len(axes) > 1 or g.rng.random() < 0.5) else axes[0]}}

    def run(self, task, rec, ins):
        ax = rec["args"]["axes"]
        if ax is None:
            return [ins[0].flip_charges()]
        return [ins[0].flip_charges(axes=tuple(ax) if isinstance(ax, list) else ax)]

    def shadow(self, task, rec, sins, outs, ins=None):
        a = sins[0]
        ax = rec["args"]["axes"]
        axes = list(range(a.ndim)) if ax is None else (list(ax) if isinstance(ax, list) else [ax])
        gr = a.groups()
        arr, uaxes = a.arr, list(a.axes)
        for i in axes:
            for k in gr[i]:
                new, perm = uaxes[k].flip_charges()
                arr = np.take(arr, perm, axis=k)
                uaxes[k] = new
                if find_uref(task, new) is None:
                    task.extra_ulegs["f%d_%d" % (rec["id"], k)] = new
        return [Shadow(arr, uaxes, a.tree, a.n, a.sym, False)]


@register
class OpDropHistory(Op):
    """drop_leg_history(axes): the same blocks and dense layout, fused legs re-declared as plain legs.  No dense shadow is produced (the result cannot
    be unfused any more); the op carries a relational oracle and feeds the differential / invariant / ownership checks."""
    name = "drop_history"
    shares = True

    def gen(self, g):
        a = g.pick_tensor(lambda s, v, sh: sh is not None and not sh.isdiag and sh.any_fused())
        if a is None:
            return None
        sa = g.sh(a)
        fused = [i for i, t in enumerate(sa.tree) if t != "e"]
        if g.rng.random() < 0.3:
            return {"op": "drop_history", "in": [a], "args": {"axes": None}}
        axes = g.rng.sample(fused, g.rng.randint(1, len(fused)))
        if g.rng.random() < 0.3 and sa.ndim > len(fused):
            axes.append(g.rng.choice([i for i in range(sa.ndim) if i not in fused]))      # an unfused leg in the list is legal (nothing to drop)
        return {"op": "drop_history", "in": [a], "args": {"axes": axes if len(axes) > 1 or g.rng.random() < 0.5 else axes[0]}}

    def run(self, task, rec, ins):
        x, ax = ins[0], rec["args"]["axes"]
        y = x.drop_leg_history() if ax is None else x.drop_leg_history(axes=tuple(ax) if isinstance(ax, list) else ax)
        w = core.current_world()
        if not getattr(w, "generating", False) and getattr(w, "prop", None) in ("C01", "C02", "C03"):
            axes = list(range(x.ndim)) if ax is None else (list(ax) if isinstance(ax, list) else [ax])
            what = "op %d drop_leg_history(axes=%s)" % (rec["id"], ax)
            lx, ly = x.get_legs(), y.get_legs()
            for i in range(x.ndim):
                if i in axes and not lx[i].history().startswith("m"):
                    # (a meta-fused leg is a group of legs, not a record: drop_leg_history acts on the hard-fusion record of each member and is
                    #  not held to anything here)
                    if ly[i].is_fused() or (ly[i].s, tuple(ly[i].t), tuple(ly[i].D)) != (lx[i].s, tuple(lx[i].t), tuple(lx[i].D)):
                        raise core.Violation(w.prop, "drop-history-legs", "%s: leg %d should keep signature/charges/dimensions and lose its history: %s -> %s" % (what, i, lx[i], ly[i]))
                elif i not in axes and ly[i] != lx[i]:
                    raise core.Violation(w.prop, "drop-history-legs", "%s: leg %d was not listed but changed: %s -> %s" % (what, i, lx[i], ly[i]))
            if tuple(x.n) != tuple(y.n) or not np.array_equal(x.to_numpy(), y.to_numpy()):
                raise core.Violation(w.prop, "drop-history-values", "%s: dense values / charge changed" % what)
            w.stats["drop_history_checked"] += 1
        return [y]

    def shadow(self, task, rec, sins, outs, ins=None):
        return [None]


@register
class OpTranspose(Op):
    name = "transpose"
    listed_c01 = True
    shares = True

    def gen(self, g):
        a = g.pick_tensor(lambda s, v, sh: v.ndim >= 2)
        if a is None:
            return None
        nd = g.val(a).ndim
        kind = g.rng.choice(["transpose", "transpose", "transpose", "moveaxis", "moveaxis", "move_leg", "T", "H"])
        args = {"kind": kind}
        if kind == "transpose":
            p = list(range(nd))
            g.rng.shuffle(p)
            args["axes"] = p
        elif kind in ("moveaxis", "move_leg"):
            args["src"] = g.rng.randrange(-nd, nd)
            args["dst"] = g.rng.randrange(-nd, nd)
        return {"op": "transpose", "in": [a], "args": args}

    def _perm(self, rec, nd):
        a = rec["args"]
        k = a["kind"]
        if k == "transpose":
            return list(a["axes"])
        if k in ("T", "H"):
            return list(range(nd))[::-1]
        src, dst = a["src"] % nd, a["dst"] % nd
        p = [i for i in range(nd) if i != src]
        p.insert(dst, src)
        return p

    def run(self, task, rec, ins):
        a = rec["args"]
        x = ins[0]
        if a["kind"] == "transpose":
            return [x.transpose(axes=tuple(a["axes"]))]
        if a["kind"] == "moveaxis":
            return [x.moveaxis(a["src"], a["dst"])]
        if a["kind"] == "move_leg":
            return [x.move_leg(a["src"], a["dst"])]
        if a["kind"] == "T":
            return [x.T]
        return [x.H]

    def shadow(self, task, rec, sins, outs, ins=None):
        a = sins[0]
        p = self._perm(rec, a.ndim)
        out = permute_shadow(a, p)
        if rec["args"]["kind"] == "H":
            out = conj_shadow(out)
        return [out]


def permute_shadow(a, p):
    gr = a.groups()
    eorder = [k for i in p for k in gr[i]]
    return Shadow(np.transpose(a.arr, eorder), [a.axes[k] for k in eorder], [a.tree[i] for i in p], a.n, a.sym, a.isdiag)


# ---- contractions ---------------------------------------------------------------------------

def _total_leaves(sh, legs):
    return sum(n_leaves(sh.tree[i]) for i in legs)


@register
class OpTensordot(Op):
    name = "tensordot"
    listed_c01 = True

    def gen(self, g):
        rng = g.rng
        a = g.pick_tensor(lambda s, v, sh: sh is not None)
        if a is None:
            return None
        sa = g.sh(a)
        mode = rng.random()
        if sa.isdiag:
            return self._gen_diag(g, a, first=True)
        if mode < 0.12:
            d = g.pick_tensor(lambda s, v, sh: sh is not None and sh.isdiag)
            if d is not None:
                return self._gen_diag(g, d, first=rng.random() < 0.5, other=a)
        if mode < 0.55:
            # a with (conj of) a same-structure tensor: any subset of legs matches
            b = partner_same(g, a)
            if b is None:
                return None
            nd = sa.ndim
            k = rng.randint(0 if nd <= 3 else 1, nd)
            la = rng.sample(range(nd), k)
            lb = list(la)
            cj = rng.choice([[0, 1], [1, 0]])
            if 2 * (len(sa.axes) - _total_leaves(sa, la)) > 7:
                return None
            use_mm = False
            return {"op": "tensordot", "in": [a, b], "args": {"axes": [la, lb], "conj": cj}}
        # general search: b from the pool with conj in {0,1} making some legs contractible
        cands = tensors(g.task, lambda s, v, sh: sh is not None and not sh.isdiag)
        rng.shuffle(cands)
        for b in cands[:6]:
            sb0 = g.sh(b)
            for cb in ([0, 1] if rng.random() < 0.5 else [1, 0]):
                sb = conj_shadow(sb0, cb)
                pairs = [(i, j) for i in range(sa.ndim) for j in range(sb.ndim) if legs_match(sa, i, sb, j)]
                if not pairs:
                    continue
                rng.shuffle(pairs)
                la, lb = [], []
                for i, j in pairs:
                    if i not in la and j not in lb and (a != b or True) and rng.random() < 0.7:
                        la.append(i)
                        lb.append(j)
                if not la:
                    la, lb = [pairs[0][0]], [pairs[0][1]]
                rest = (len(sa.axes) - _total_leaves(sa, la)) + (len(sb.axes) - _total_leaves(sb, lb))
                if rest > 7:
                    continue
                return {"op": "tensordot", "in": [a, b], "args": {"axes": [la, lb], "conj": [0, cb]}}
        # outer product of two small tensors
        b = g.pick_tensor(lambda s, v, sh: sh is not None and not sh.isdiag)
        if b is not None and len(sa.axes) + len(g.sh(b).axes) <= 5:
            return {"op": "tensordot", "in": [a, b], "args": {"axes": [[], []], "conj": [0, 0]}}
        return None

    def _gen_diag(self, g, d, first, other=None):
        """Contraction of diagonal d with one leg of a tensor with a matching elementary leg."""
        rng = g.rng
        sd = g.sh(d)
        for cd in (0, 1):
            sdc = conj_shadow(sd, cd)
            cands = [other] if other is not None else tensors(g.task, lambda s, v, sh: sh is not None and not sh.isdiag)
            rng.shuffle(cands)
            for b in cands[:8]:
                sb = g.sh(b)
                for ld in rng.sample([0, 1], 2):
                    js = [j for j in range(sb.ndim) if legs_match(sdc, ld, sb, j)]
                    if js:
                        j = rng.choice(js)
                        if first:
                            return {"op": "tensordot", "in": [d, b], "args": {"axes": [[ld], [j]], "conj": [cd, 0]}}
                        return {"op": "tensordot", "in": [b, d], "args": {"axes": [[j], [ld]], "conj": [0, cd]}}
        return None

    def run(self, task, rec, ins):
        a = rec["args"]
        ax = (tuple(a["axes"][0]), tuple(a["axes"][1]))
        if a.get("matmul"):
            return [ins[0] @ ins[1]]
        return [yastn.tensordot(ins[0], ins[1], axes=ax, conj=tuple(a["conj"]))]

    def shadow(self, task, rec, sins, outs, ins=None):
        a = rec["args"]
        A = conj_shadow(sins[0], a["conj"][0])
        B = conj_shadow(sins[1], a["conj"][1])
        return [tensordot_shadow(A, B, a["axes"][0], a["axes"][1])]


def tensordot_shadow(A, B, la, lb):
    ga, gb = A.groups(), B.groups()
    ea = [k for i in la for k in ga[i]]
    eb = [k for j in lb for k in gb[j]]
    out_size = (A.arr.size // max(1, int(np.prod([A.arr.shape[k] for k in ea] or [1])))) * (B.arr.size // max(1, int(np.prod([B.arr.shape[k] for k in eb] or [1]))))
    if out_size > 4_000_000:
        return None          # beyond the size bound of the dense model (see e1.execute): not computed at all
    arr = np.tensordot(A.arr, B.arr, axes=(ea, eb))
    ra = [i for i in range(A.ndim) if i not in la]
    rb = [j for j in range(B.ndim) if j not in lb]
    axes = [A.axes[k] for i in ra for k in ga[i]] + [B.axes[k] for j in rb for k in gb[j]]
    tree = [A.tree[i] for i in ra] + [B.tree[j] for j in rb]
    return Shadow(arr, axes, tree, A.sym.add(A.n, B.n), A.sym, False)


@register
class OpVdot(Op):
    name = "vdot"
    listed_c01 = True

    def gen(self, g):
        a = g.pick_tensor(lambda s, v, sh: sh is not None)
        if a is None:
            return None
        b = partner_same(g, a)
        if b is None:
            return None
        return {"op": "vdot", "in": [a, b], "args": {"conj": g.rng.choice([[1, 0], [1, 0], [0, 1]])}}

    def run(self, task, rec, ins):
        return [yastn.vdot(ins[0], ins[1], conj=tuple(rec["args"]["conj"]))]

    def shadow(self, task, rec, sins, outs, ins=None):
        c = rec["args"]["conj"]
        A = sins[0].arr.conj() if c[0] else sins[0].arr
        B = sins[1].arr.conj() if c[1] else sins[1].arr
        if sins[0].isdiag:
            return [complex(np.sum(np.diag(A) * np.diag(B)))]
        return [complex(np.sum(A * B))]


@register
class OpTrace(Op):
    name = "trace"
    listed_c01 = True

    def gen(self, g):
        rng = g.rng

        def pairs_of(sh):
            return [(i, j) for i in range(sh.ndim) for j in range(sh.ndim) if i != j and legs_match(sh, i, sh, j)]
        a = g.pick_tensor(lambda s, v, sh: sh is not None and len(pairs_of(sh)) > 0)
        if a is None:
            return None
        sa = g.sh(a)
        pairs = pairs_of(sa)
        rng.shuffle(pairs)
        l0, l1 = [], []
        for i, j in pairs:
            if i not in l0 + l1 and j not in l0 + l1 and (not l0 or rng.random() < 0.6):
                l0.append(i)
                l1.append(j)
        return {"op": "trace", "in": [a], "args": {"axes": [l0, l1]}}

    def run(self, task, rec, ins):
        ax = rec["args"]["axes"]
        if len(ax[0]) == 1 and rec["id"] % 2 == 0:
            return [ins[0].trace(axes=(ax[0][0], ax[1][0]))]
        return [ins[0].trace(axes=(tuple(ax[0]), tuple(ax[1])))]

    def shadow(self, task, rec, sins, outs, ins=None):
        a = sins[0]
        l0, l1 = rec["args"]["axes"]
        gr = a.groups()
        letters = list(range(len(a.axes)))
        for i, j in zip(l0, l1):
            for k0, k1 in zip(gr[i], gr[j]):
                letters[k1] = letters[k0]
        rest = [i for i in range(a.ndim) if i not in l0 + l1]
        out = [k for i in rest for k in gr[i]]
        arr = np.einsum(a.arr, letters, out)
        return [Shadow(np.asarray(arr), [a.axes[k] for k in out], [a.tree[i] for i in rest], a.n, a.sym, False)]


@register
class OpBroadcast(Op):
    name = "broadcast"
    listed_c01 = True

    def gen(self, g, mask=False):
        rng = g.rng

        def cand_axes(sh):
            return [i for i in range(sh.ndim) if sh.tree[i] == "e" and find_uref(g.task, sh.axes[sh.groups()[i][0]]) is not None]
        b = g.pick_tensor(lambda s, v, sh: sh is not None and not (mask and sh.isdiag) and cand_axes(sh))
        if b is None:
            return None
        sb = g.sh(b)
        ax = rng.choice(cand_axes(sb))
        u = sb.axes[sb.groups()[ax][0]]
        # an existing diagonal tensor over that leg, or a new one
        ds = tensors(g.task, lambda s, v, sh: sh is not None and sh.isdiag and sh.axes[0].matchkey() == u.matchkey())
        if ds and rng.random() < 0.5:
            d = rng.choice(ds)
        else:
            ref = find_uref(g.task, u)
            cj = ref[1] if rng.random() < 0.5 else 1 - ref[1]
            d = g.emit({"op": "rand_diag", "in": [], "args": {"leg": [ref[0], cj, _subset(g, u) if rng.random() < 0.4 else None],
                                                              "kind": "mask" if mask else rng.choice(["rand", "rand", "eye"]),
                                                              "dtype": "float64"}})[0]
        if mask:
            dv = np.diag(g.sh(d).arr)
            if not np.any(dv != 0):
                return None
        return {"op": "apply_mask" if mask else "broadcast", "in": [d, b], "args": {"axis": ax if rng.random() < 0.7 else ax - sb.ndim}}

    def run(self, task, rec, ins):
        return [ins[0].broadcast(ins[1], axes=rec["args"]["axis"])]

    def shadow(self, task, rec, sins, outs, ins=None):
        d, b = sins
        ax = rec["args"]["axis"] % b.ndim
        k = b.groups()[ax][0]
        dv = np.diag(d.arr)
        shp = [1] * b.arr.ndim
        shp[k] = len(dv)
        arr = b.arr * dv.reshape(shp)
        return [Shadow(arr, b.axes, b.tree, b.n, b.sym, b.isdiag)]


@register
class OpApplyMask(OpBroadcast):
    name = "apply_mask"
    listed_c01 = True

    def gen(self, g):
        return OpBroadcast.gen(self, g, mask=True)

    def run(self, task, rec, ins):
        return [ins[0].apply_mask(ins[1], axes=rec["args"]["axis"])]

    def shadow(self, task, rec, sins, outs, ins=None):
        d, b = sins
        ax = rec["args"]["axis"] % b.ndim
        k = b.groups()[ax][0]
        keep = np.diag(d.arr) != 0
        u = b.axes[k]
        ts, Ds = [], []
        for t, (o0, o1) in zip(u.ts, zip(u._off[:-1], u._off[1:])):
            c = int(np.sum(keep[o0:o1]))
            if c > 0:
                ts.append(t)
                Ds.append(c)
        nu = ULeg(u.sym, u.s, ts, Ds)
        task.extra_ulegs["m%d" % rec["id"]] = nu if nu.s == 1 else nu.conj()
        arr = np.compress(keep, b.arr, axis=k)
        axes = list(b.axes)
        axes[k] = nu
        return [Shadow(arr, axes, b.tree, b.n, b.sym, False)]


@register
class OpDiag(Op):
    name = "diag"
    listed_c01 = True

    def gen(self, g):
        def ok(s, v, sh):
            if sh is None:
                return False
            if sh.isdiag:
                return True
            return (sh.ndim == 2 and not sh.any_fused() and sh.axes[0].matchkey() == sh.axes[1].matchkey()
                    and sh.axes[0].s == -sh.axes[1].s and sh.n == sh.sym.zero())
        a = g.pick_tensor(ok)
        if a is None:
            return None
        return {"op": "diag", "in": [a], "args": {}}

    def run(self, task, rec, ins):
        return [ins[0].diag()]

    def shadow(self, task, rec, sins, outs, ins=None):
        a = sins[0]
        if a.isdiag:
            return [Shadow(a.arr, a.axes, a.tree, a.n, a.sym, False)]
        return [Shadow(np.diag(np.diag(a.arr)), a.axes, a.tree, a.n, a.sym, True)]


@register
class OpAddLeg(Op):
    name = "add_leg"
    listed_c01 = True
    shares = True

    def gen(self, g):
        a = g.pick_tensor(lambda s, v, sh: sh is not None and not sh.isdiag and len(sh.axes) <= 6)
        if a is None:
            return None
        sa = g.sh(a)
        s = g.rng.choice([-1, 1])
        if g.rng.random() < 0.5 or sa.sym.nsym == 0:
            t = None
        else:
            # charges outside the canonical range are legal input (the group law reduces them)
            t = [g.rng.choice(m and list(range(-1, m + 2)) or [-1, 0, 1, 2]) for m in sa.sym.mods]
        return {"op": "add_leg", "in": [a], "args": {"axis": g.rng.randint(-sa.ndim - 1, sa.ndim), "s": s, "t": t}}

    def run(self, task, rec, ins):
        a = rec["args"]
        kw = {}
        if a["t"] is not None:
            kw["t"] = tuple(a["t"])
        return [ins[0].add_leg(axis=a["axis"], s=a["s"], **kw)]

    def shadow(self, task, rec, sins, outs, ins=None):
        a, ar = sins[0], rec["args"]
        s = ar["s"]
        t = a.sym.scale(-s, a.n) if ar["t"] is None else a.sym.canon(tuple(ar["t"]))
        ax = ar["axis"] % (a.ndim + 1)
        gr = a.groups()
        k = gr[ax][0] if ax < a.ndim else len(a.axes)
        nu = ULeg(a.sym, s, [t], [1])
        task.extra_ulegs["a%d" % rec["id"]] = nu if s == 1 else nu.conj()
        axes = a.axes[:k] + [nu] + a.axes[k:]
        tree = a.tree[:ax] + ["e"] + a.tree[ax:]
        n = a.sym.add(a.n, a.sym.scale(s, t))
        return [Shadow(np.expand_dims(a.arr, k), axes, tree, n, a.sym, False)]


@register
class OpRemoveLeg(Op):
    name = "remove_leg"
    listed_c01 = True
    shares = True

    def gen(self, g):
        def cands(v, sh):
            if sh is None or sh.isdiag or v.size == 0:
                return []
            out = []
            legs = v.get_legs()
            for i, l in enumerate(legs):
                if sh.tree[i] == "e" and len(l.t) == 1 and tuple(l.D) == (1,):
                    out.append((i, l.t[0]))
            return out
        a = g.pick_tensor(lambda s, v, sh: cands(v, sh))
        if a is None:
            return None
        i, t = g.rng.choice(cands(g.val(a), g.sh(a)))
        nd = g.sh(a).ndim
        return {"op": "remove_leg", "in": [a], "args": {"axis": i if g.rng.random() < 0.6 else i - nd, "t": list(t)}}

    def run(self, task, rec, ins):
        return [ins[0].remove_leg(axis=rec["args"]["axis"])]

    def shadow(self, task, rec, sins, outs, ins=None):
        a, ar = sins[0], rec["args"]
        ax = ar["axis"] % a.ndim
        k = a.groups()[ax][0]
        u = a.axes[k]
        t = tuple(ar["t"])
        o0, _ = u.rng_of(t)
        arr = np.take(a.arr, o0, axis=k)
        axes = a.axes[:k] + a.axes[k + 1:]
        tree = a.tree[:ax] + a.tree[ax + 1:]
        n = a.sym.sub(a.n, a.sym.scale(u.s, t))
        return [Shadow(arr, axes, tree, n, a.sym, False)]


# ---- fusion ------------------------------------------------------------------------------------

def eff_mode(task, mode):
    if task.cfg.force_fusion is not None:
        return task.cfg.force_fusion
    return mode if mode is not None else task.cfg.default_fusion


@register
class OpFuse(Op):
    name = "fuse"
    shares = True

    def gen(self, g, a=None, axes=None, mode="draw"):
        rng = g.rng
        if a is None:
            a = g.pick_tensor(lambda s, v, sh: sh is not None and not sh.isdiag and sh.ndim >= 2 and max([depth(t) for t in sh.tree] + [0]) < 3)
            if a is None:
                return None
        sa = g.sh(a)
        if axes is None:
            p = list(range(sa.ndim))
            rng.shuffle(p)
            axes, i = [], 0
            while i < len(p):
                k = rng.choice([1, 1, 2, 2, 3])
                grp = p[i:i + k]
                axes.append(grp if len(grp) > 1 or rng.random() < 0.2 else grp[0])
                i += k
            if all(isinstance(x, int) for x in axes):
                axes[0] = [axes[0], axes[1]] if isinstance(axes[1], int) else axes[0]
                if isinstance(axes[0], list):
                    del axes[1]
        if mode == "draw":
            mode = rng.choice(["hard", "hard", "meta", "meta", None])
        return {"op": "fuse", "in": [a], "args": {"axes": axes, "mode": mode}}

    def run(self, task, rec, ins):
        a = rec["args"]
        axes = tuple(tuple(x) if isinstance(x, list) else x for x in a["axes"])
        if a["mode"] is None:
            return [ins[0].fuse_legs(axes=axes)]
        return [ins[0].fuse_legs(axes=axes, mode=a["mode"])]

    def shadow(self, task, rec, sins, outs, ins=None):
        a, ar = sins[0], rec["args"]
        mode = eff_mode(task, ar["mode"])
        m = "h" if mode == "hard" else "m"
        groups = [x if isinstance(x, list) else [x] for x in ar["axes"]]
        order = [i for grp in groups for i in grp]
        b = permute_shadow(a, order)
        tree, k = [], 0
        src = b.tree
        if m == "h":
            src = [tree_to_hard(t) for t in src]
        for grp in groups:
            if len(grp) == 1:
                tree.append(src[k])
            else:
                tree.append([m, [src[k + q] for q in range(len(grp))]])
            k += len(grp)
        return [Shadow(b.arr, b.axes, tree, a.n, a.sym, False)]


@register
class OpUnfuse(Op):
    name = "unfuse"
    shares = True

    def gen(self, g):
        a = g.pick_tensor(lambda s, v, sh: sh is not None and sh.any_fused())
        if a is None:
            return None
        sa = g.sh(a)
        fused = [i for i in range(sa.ndim) if sa.tree[i] != "e"]
        k = g.rng.randint(1, len(fused))
        axes = sorted(g.rng.sample(fused, k))
        if g.rng.random() < 0.15:
            axes = sorted(set(axes + [g.rng.randrange(sa.ndim)]))
        return {"op": "unfuse", "in": [a], "args": {"axes": axes}}

    def run(self, task, rec, ins):
        ax = rec["args"]["axes"]
        return [ins[0].unfuse_legs(axes=ax[0] if len(ax) == 1 and rec["id"] % 2 else tuple(ax))]

    def shadow(self, task, rec, sins, outs, ins=None):
        a = sins[0]
        tree = []
        for i, t in enumerate(a.tree):
            if i in rec["args"]["axes"] and t != "e":
                tree.extend(t[1])
            else:
                tree.append(t)
        return [Shadow(a.arr, a.axes, tree, a.n, a.sym, False)]


@register
class OpMetaToHard(Op):
    name = "meta_to_hard"
    shares = True

    def gen(self, g):
        a = g.pick_tensor(lambda s, v, sh: sh is not None and any(has_meta(t) for t in sh.tree))
        if a is None:
            return None
        return {"op": "meta_to_hard", "in": [a], "args": {}}

    def run(self, task, rec, ins):
        return [ins[0].fuse_meta_to_hard()]

    def shadow(self, task, rec, sins, outs, ins=None):
        a = sins[0]
        return [Shadow(a.arr, a.axes, [tree_to_hard(t) for t in a.tree], a.n, a.sym, False)]


@register
class OpFusePair(Op):
    """Generator-only macro: applies the same fusion to two same-structure tensors, so that
    later binary ops meet operands fused from legs with (possibly) different sector content."""
    name = "fuse_pair"

    def gen(self, g):
        rng = g.rng
        if rng.random() < 0.65:
            rec = self._gen_mismatched(g)
            if rec is not None:
                return rec
        a = g.pick_tensor(lambda s, v, sh: sh is not None and not sh.isdiag and sh.ndim >= 2 and max([depth(t) for t in sh.tree] + [0]) < 3)
        if a is None:
            return None
        b = partner_same(g, a, allow_self=False)
        if b is None or b == a:
            return None
        rec = OPS["fuse"].gen(g, a=a)
        g.emit(rec)
        rec2 = {"op": "fuse", "in": [b], "args": {"axes": rec["args"]["axes"], "mode": rec["args"]["mode"]}}
        return rec2

    def _gen_mismatched(self, g):
        """Deliberate construction: an unfused tensor a, 1-2 fresh partners on sub-sector selections of the same legs (equal, overlapping or
        disjoint sector sets), the same fusion (optionally twice: nested) applied to all of them, then one binary / n-ary op over the family."""
        rng = g.rng
        a = g.pick_tensor(lambda s, v, sh: sh is not None and not sh.isdiag and 2 <= sh.ndim <= 5 and not sh.any_fused())
        if a is None:
            return None
        sa = g.sh(a)
        fam = [a]
        crossed = None
        multi = [k for k, u in enumerate(sa.axes) if len(u.ts) > 1]
        if len(multi) >= 2 and rng.random() < 0.35:
            # "crossed" selections: partner 1 keeps ONE sector on leg i and all on leg j, partner 2 the other way round, and (i, j) are fused
            # together: a fused charge can then exist on both sides while being built from disjoint constituents (a mask that is entirely False)
            crossed = rng.sample(multi, 2)
            fam = []
        for q in range(2 if crossed else rng.choice([1, 1, 2])):
            specs = []
            for k, u in enumerate(sa.axes):
                ref = find_uref(g.task, u)
                if ref is None:
                    return None
                U = _uleg(g.task, [ref[0], ref[1], None])
                sub = None
                if crossed and k in crossed:
                    sub = [rng.randrange(len(U.ts))] if k == crossed[q] else None
                elif len(U.ts) > 1 and rng.random() < (0.3 if crossed else 0.7):
                    sub = sorted(rng.sample(range(len(U.ts)), rng.randint(1, len(U.ts))))
                specs.append([ref[0], ref[1], sub])
            rec = OPS["rand"].gen(g, specs=specs, n=list(sa.n))
            fam.append(g.emit(rec)[0])
        if crossed:
            i, j = sorted(crossed)
            axes = [[i, j] if k == i else k for k in range(sa.ndim) if k != j]
            rng.shuffle(axes)
            new = []
            for b in fam:
                new.append(g.emit({"op": "fuse", "in": [b], "args": {"axes": axes, "mode": None}})[0])      # default mode: explicit modes must not be mixed with defaults across the knob arms
            fam = new
        for _ in range(0 if crossed else rng.choice([1, 1, 2])):
            if g.sh(fam[0]) is None or g.sh(fam[0]).ndim < 2:
                break
            rec = OPS["fuse"].gen(g, a=fam[0])
            if rec is None:
                break
            new = [g.emit(rec)[0]]
            for b in fam[1:]:
                new.append(g.emit({"op": "fuse", "in": [b], "args": {"axes": rec["args"]["axes"], "mode": rec["args"]["mode"]}})[0])
            fam = new
        if any(g.sh(x) is None for x in fam):
            return None
        kind = rng.choice(["add", "add3", "vdot", "tensordot", "sub"])
        a0, b0 = fam[0], fam[1]
        if rng.random() < 0.5:
            a0, b0 = b0, a0
        if kind in ("add", "sub"):
            return {"op": "add", "in": [a0, b0], "args": {"kind": kind}}
        if kind == "add3":
            third = fam[2] if len(fam) > 2 and rng.random() < 0.5 else a0
            ins = [a0, b0, third]
            if rng.random() < 0.3:
                ins = [a0, third, b0]
            return {"op": "add", "in": ins, "args": {"kind": "amp", "amps": [[round(rng.uniform(-2, 2), 3), 0.0] for _ in ins]}}
        if kind == "vdot":
            return {"op": "vdot", "in": [a0, b0], "args": {"conj": rng.choice([[1, 0], [0, 1]])}}
        nd = g.sh(a0).ndim
        k = rng.randint(1, nd)
        la = rng.sample(range(nd), k)
        if 2 * (len(g.sh(a0).axes) - _total_leaves(g.sh(a0), la)) > 7:
            la = list(range(nd))
        return {"op": "tensordot", "in": [a0, b0], "args": {"axes": [la, list(la)], "conj": rng.choice([[0, 1], [1, 0]])}}


@register
class OpPairUnary(Op):
    """Generator-only macro: the same transpose / conj applied to two same-structure tensors, so that
    binary ops meet two operands carrying the SAME pending permutation (and possibly mismatched
    fusion histories)."""
    name = "pair_unary"

    def gen(self, g):
        a = g.pick_tensor(lambda s, v, sh: sh is not None and sh.ndim >= 2)
        if a is None:
            return None
        b = partner_same(g, a, allow_self=False)
        if b is None or b == a:
            return None
        sa = g.sh(a)
        if g.rng.random() < 0.75:
            p = list(range(sa.ndim))
            g.rng.shuffle(p)
            rec = {"op": "transpose", "in": [a], "args": {"kind": "transpose", "axes": p}}
        else:
            rec = {"op": "conj", "in": [a], "args": {"kind": g.rng.choice(["conj", "flip_signature"])}}
        g.emit(rec)
        return {"op": rec["op"], "in": [b], "args": dict(rec["args"])}


# ---- element-wise --------------------------------------------------------------------------------

def support_mask(x, axes):
    """True where x stores a block; x unfused, axes = its elementary universe legs."""
    shape = tuple(u.dim for u in axes)
    m = np.zeros(shape, dtype=bool)
    if x.config.sym.NSYM == 0:
        try:
            x[()]
            m[...] = True
        except YastnError:
            pass
        return m
    legs = x.get_legs(native=True)
    for combo in itertools.product(*[l.t for l in legs]):
        key = tuple(itertools.chain(*combo))
        try:
            x[key]
        except YastnError:
            continue
        sl = tuple(slice(*axes[k].rng_of(t)) for k, t in enumerate(combo))
        m[sl] = True
    return m


@register
class OpElementwise(Op):
    name = "elementwise"
    listed_c01 = True

    ZERO_PRESERVING = ("abs", "real", "imag", "sqrt_abs", "pow2", "pow3", "rsqrt", "reciprocal")

    def gen(self, g):
        a = g.pick_tensor(lambda s, v, sh: sh is not None)
        if a is None:
            return None
        sa = g.sh(a)
        kinds = list(self.ZERO_PRESERVING)
        if not sa.any_fused() and not sa.isdiag and len(sa.axes) <= 5:
            kinds += ["exp", "exp"]
        k = g.rng.choice(kinds)
        args = {"kind": k}
        if k == "exp":
            args["step"] = round(g.rng.uniform(-1, 1), 3)
        if k in ("rsqrt", "reciprocal"):
            args["cutoff"] = g.rng.choice([0.0, 0.05, 0.3])
            mag = np.abs(sa.arr[sa.arr != 0])
            if mag.size and (mag.min() < 1e-6 * mag.max() or mag.min() < 1e-8 or np.any(np.abs(mag - args["cutoff"]) < 1e-6 * max(1.0, float(mag.max())))):
                # 1/x on entries at round-off level (e.g. a difference that should vanish), or entries sitting on the cutoff, is ill-conditioned:
                # the library's and the model's round-off would be compared, not the operation
                return None
            if sa.is_complex() or (k == "rsqrt"):
                # rsqrt needs non-negative entries: feed |a|
                args["pre_abs"] = True
        return {"op": "elementwise", "in": [a], "args": args}

    def run(self, task, rec, ins):
        a, ar = ins[0], rec["args"]
        k = ar["kind"]
        if ar.get("pre_abs"):
            a = abs(a)
        if k == "abs":
            return [abs(a)]
        if k == "real":
            return [a.real()]
        if k == "imag":
            return [a.imag()]
        if k == "sqrt_abs":
            return [abs(a).sqrt()]
        if k == "pow2":
            return [a ** 2]
        if k == "pow3":
            return [a ** 3]
        if k == "exp":
            return [a.exp(step=ar["step"])]
        if k == "rsqrt":
            return [a.rsqrt(cutoff=ar["cutoff"])]
        if k == "reciprocal":
            return [a.reciprocal(cutoff=ar["cutoff"])]
        raise ValueError(k)

    def shadow(self, task, rec, sins, outs, ins=None):
        a, ar = sins[0], rec["args"]
        k = ar["kind"]
        x = np.abs(a.arr) if ar.get("pre_abs") else a.arr
        if k == "abs":
            arr = np.abs(x)
        elif k == "real":
            arr = np.real(x).copy()
        elif k == "imag":
            arr = np.imag(x).copy()
        elif k == "sqrt_abs":
            arr = np.sqrt(np.abs(x))
        elif k == "pow2":
            arr = x ** 2
        elif k == "pow3":
            arr = x ** 3
        elif k == "exp":
            m = support_mask(ins[0], a.axes)
            arr = np.where(m, np.exp(ar["step"] * x), 0)
        else:
            c = ar["cutoff"]
            big = np.abs(x) > c
            safe = np.where(big, x, 1)
            arr = np.where(big, 1 / np.sqrt(safe) if k == "rsqrt" else 1 / safe, 0)
            mag = np.abs(x[x != 0])
            if ins is not None and ins[0].size:       # the real operand may carry round-off-level entries where the model has exact zeros
                real = np.abs(np.asarray(ins[0].to_numpy() if ins[0].ndim else ins[0].to_number())).reshape(-1)
                mag = np.concatenate([mag.reshape(-1), real[real != 0]])
            if mag.size and (mag.min() < 1e-6 * mag.max() or mag.min() < 1e-8 or np.any(np.abs(mag - c) < 1e-6 * max(1.0, float(mag.max())))):
                # ill-conditioned input (round-off-level entries, or entries on the cutoff): the model value is not an oracle here
                core.current_world().probes["ill_conditioned_reciprocal_not_compared"] += 1
                return [None]
        return [Shadow(arr, a.axes, a.tree, a.n, a.sym, a.isdiag)]


# ---- identity-like ops ------------------------------------------------------------------------------

@register
class OpCopy(Op):
    name = "copy"
    shares = True

    KINDS = ("copy", "clone", "shallow_copy", "consume_transpose", "remove_zero_blocks", "detach",
             "dict0", "dict1", "dict2", "to_complex", "drop_leg_history_none")

    def gen(self, g, kinds=None):
        a = g.pick_tensor()
        if a is None:
            return None
        k = g.rng.choice(kinds or self.KINDS[:9])
        return {"op": "copy", "in": [a], "args": {"kind": k}}

    def run(self, task, rec, ins):
        a, k = ins[0], rec["args"]["kind"]
        if k.startswith("dict"):
            d = a.to_dict(level=int(k[4]))
            return [yastn.Tensor.from_dict(d)]
        if k == "to_complex":
            return [a.to(dtype="complex128")]
        return [getattr(a, k)()]

    def shadow(self, task, rec, sins, outs, ins=None):
        a = sins[0]
        arr = a.arr.astype(np.complex128) if rec["args"]["kind"] == "to_complex" else a.arr
        return [Shadow(arr, a.axes, a.tree, a.n, a.sym, a.isdiag)]


# ---- networks ------------------------------------------------------------------------------------------

@register
class OpNcon(Op):
    name = "ncon"
    listed_c01 = True

    def gen(self, g):
        rng = g.rng
        a = g.pick_tensor(lambda s, v, sh: sh is not None and not sh.isdiag and 1 <= sh.ndim <= 4 and len(sh.axes) <= 5)
        if a is None:
            return None
        sa = g.sh(a)
        nt = rng.choice([2, 2, 3])
        ts = [a]
        for _ in range(nt - 1):
            b = partner_same(g, a)
            if b is None:
                return None
            ts.append(b)
        conjs = [i % 2 for i in range(nt)]
        nd = sa.ndim
        inds = [[None] * nd for _ in range(nt)]
        lab = 1
        for i in range(nt - 1):
            free = [k for k in range(nd) if inds[i][k] is None and inds[i + 1][k] is None]
            if not free:
                continue
            for k in rng.sample(free, rng.randint(1 if i == 0 else 0, len(free))):
                inds[i][k] = lab
                inds[i + 1][k] = lab
                lab += 1
        opens = [(i, k) for i in range(nt) for k in range(nd) if inds[i][k] is None]
        if sum(n_leaves(sa.tree[k]) for _, k in opens) > 7:
            return None
        rng.shuffle(opens)
        for q, (i, k) in enumerate(opens):
            inds[i][k] = -q - 1 if rng.random() < 0.8 or True else 0
        args = {"inds": inds, "conjs": conjs, "api": rng.choice(["ncon", "ncon", "einsum"])}
        if lab > 2 and rng.random() < 0.5:
            # labels connecting the same pair of tensors must stay adjacent (ncon rejects other orders)
            grps = {}
            for i in range(nt):
                for k in range(nd):
                    v = inds[i][k]
                    if v is not None and v > 0:
                        grps.setdefault(v, set()).add(i)
            bypair = {}
            for v, pr in sorted(grps.items()):
                bypair.setdefault(tuple(sorted(pr)), []).append(v)
            blocks = list(bypair.values())
            rng.shuffle(blocks)
            order = []
            for b in blocks:
                rng.shuffle(b)
                order.extend(b)
            args["order"] = order
        return {"op": "ncon", "in": ts, "args": args}

    def run(self, task, rec, ins):
        ar = rec["args"]
        if ar["api"] == "einsum":
            # einsum has no conjs: conjugate operands explicitly
            ops = [x.conj() if c else x for x, c in zip(ins, ar["conjs"])]
            letters = {}

            def L(v):
                if v not in letters:
                    letters[v] = "abcdefghijklmnopqrstuvwxyz"[len(letters)] if v > 0 else "ABCDEFGHIJKLMNOPQRSTUVWXYZ"[-v - 1]
                return letters[v]
            subs = ",".join("".join(L(v) for v in ind) for ind in ar["inds"])
            outl = sorted([v for ind in ar["inds"] for v in ind if v < 0], reverse=True)
            subs += "->" + "".join(L(v) for v in outl)
            kw = {}
            if "order" in ar:
                kw["order"] = "".join(L(v) for v in ar["order"])
            return [yastn.einsum(subs, *ops, **kw)]
        kw = {}
        if "order" in ar:
            kw["order"] = ar["order"]
        return [yastn.ncon(ins, ar["inds"], conjs=ar["conjs"], **kw)]

    def shadow(self, task, rec, sins, outs, ins=None):
        ar = rec["args"]
        shs = [conj_shadow(s, c) for s, c in zip(sins, ar["conjs"])]
        # expand labels to elementary axes
        operands, elabel, nxt = [], {}, [0]

        def lab(v, q):
            if (v, q) not in elabel:
                elabel[(v, q)] = nxt[0]
                nxt[0] += 1
            return elabel[(v, q)]
        for s, ind in zip(shs, ar["inds"]):
            gr = s.groups()
            sub = []
            for i, v in enumerate(ind):
                for q, _ in enumerate(gr[i]):
                    sub.append(lab(v, q))
            operands.extend([s.arr, sub])
        outl = sorted([v for ind in ar["inds"] for v in ind if v < 0], reverse=True)
        out_sub, axes, tree = [], [], []
        for v in outl:
            for s, ind in zip(shs, ar["inds"]):
                if v in ind:
                    i = ind.index(v)
                    gr = s.groups()
                    for q, k in enumerate(gr[i]):
                        out_sub.append(lab(v, q))
                        axes.append(s.axes[k])
                    tree.append(s.tree[i])
        # pairwise (greedy) evaluation: the naive nested loop over all labels is exponential in the number of operands
        # (one C03 seed spent > 5 min here and was counted as a dead worker by `vp check`)
        arr = np.einsum(*operands, out_sub, optimize="greedy")
        n = shs[0].sym.zero()
        for s in shs:
            n = s.sym.add(n, s.n)
        return [Shadow(np.asarray(arr), axes, tree, n, shs[0].sym, False)]


# ---- factorisations ------------------------------------------------------------------------------------

def _bipartition(g, sa):
    nd = sa.ndim
    p = list(range(nd))
    if g.rng.random() < 0.6:      # native order kept often: the no-copy fast paths of merging
        g.rng.shuffle(p)
    k = g.rng.randint(1, nd - 1)
    return [p[:k], p[k:]]


@register
class OpFactorRecombine(Op):
    """svd / qr / eigh followed by re-multiplication: gauge-free output (usable in differential runs)."""
    name = "factor_recombine"

    def gen(self, g):
        a = g.pick_tensor(lambda s, v, sh: sh is not None and not sh.isdiag and sh.ndim >= 2 and len(sh.axes) <= 6)
        if a is None:
            return None
        sa = g.sh(a)
        kind = g.rng.choice(["svd", "svd", "qr"])
        args = {"kind": kind, "axes": _bipartition(g, sa), "s": g.rng.choice([-1, 1])}
        if kind == "svd":
            args["nU"] = g.rng.random() < 0.5
            args["fix_signs"] = g.rng.random() < 0.3
        return {"op": "factor_recombine", "in": [a], "args": args}

    def run(self, task, rec, ins):
        a, ar = ins[0], rec["args"]
        ax = (tuple(ar["axes"][0]), tuple(ar["axes"][1]))
        if ar["kind"] == "svd":
            U, S, V = yastn.svd(a, axes=ax, sU=ar["s"], nU=ar["nU"], fix_signs=ar["fix_signs"])
            return [U @ S @ V]
        Q, R = yastn.qr(a, axes=ax, sQ=ar["s"])
        return [Q @ R]

    def shadow(self, task, rec, sins, outs, ins=None):
        a, ar = sins[0], rec["args"]
        return [permute_shadow(a, ar["axes"][0] + ar["axes"][1])]


@register
class OpSvd(Op):
    """svd with the factors put in the pool (shadows read back: they are gauge dependent)."""
    name = "svd"
    readback = True

    def nout(self, rec):
        return {"svd": 3, "qr": 2, "svdvals": 1}[rec["args"]["kind"]]

    def gen(self, g):
        a = g.pick_tensor(lambda s, v, sh: sh is not None and not sh.isdiag and sh.ndim >= 2 and len(sh.axes) <= 6 and v.size > 0)
        if a is None:
            return None
        sa = g.sh(a)
        kind = g.rng.choice(["svd", "svd", "qr", "svdvals"])
        args = {"kind": kind, "axes": _bipartition(g, sa), "s": g.rng.choice([-1, 1])}
        if kind in ("svd", "svdvals"):
            args["nU"] = g.rng.random() < 0.5
        return {"op": "svd", "in": [a], "args": args}

    def run(self, task, rec, ins):
        a, ar = ins[0], rec["args"]
        ax = (tuple(ar["axes"][0]), tuple(ar["axes"][1]))
        if ar["kind"] == "svd":
            return list(yastn.svd(a, axes=ax, sU=ar["s"], nU=ar["nU"]))
        if ar["kind"] == "svdvals":
            return [yastn.svd(a, axes=ax, sU=ar["s"], nU=ar["nU"], compute_uv=False)]
        return list(yastn.qr(a, axes=ax, sQ=ar["s"]))

    def shadow(self, task, rec, sins, outs, ins=None):
        a, ar = sins[0], rec["args"]
        gr = a.groups()
        l0, l1 = ar["axes"]
        if ar["kind"] == "svdvals":
            S = outs[0]
            ls = S.get_legs(1)
            nu = ULeg(a.sym, ls.s, [tuple(t) for t in ls.t] if a.sym.nsym else [()], list(ls.D))
            task.extra_ulegs["s%d" % rec["id"]] = nu if nu.s == 1 else nu.conj()
            axS = [nu.conj(), nu]
            return [Shadow(obs_dense(task, S, axS), axS, ["e", "e"], a.sym.zero(), a.sym, True)]
        # the connecting leg is a new universe leg, read from the result
        if ar["kind"] == "svd":
            U, S, V = outs
        else:
            U, V = outs
            S = None
        lu = U.get_legs(-1)
        nu = ULeg(a.sym, lu.s, [tuple(t) for t in lu.t] if a.sym.nsym else [()], list(lu.D))
        task.extra_ulegs["s%d" % rec["id"]] = nu if nu.s == 1 else nu.conj()
        res = []
        axU = [a.axes[k] for i in l0 for k in gr[i]] + [nu]
        trU = [a.tree[i] for i in l0] + ["e"]
        res.append(Shadow(obs_dense(task, U, axU), axU, trU, tuple(U.n), a.sym, False))
        if S is not None:
            axS = [nu.conj(), nu]
            res.append(Shadow(obs_dense(task, S, axS), axS, ["e", "e"], a.sym.zero(), a.sym, True))
        axV = [nu.conj()] + [a.axes[k] for i in l1 for k in gr[i]]
        trV = ["e"] + [a.tree[i] for i in l1]
        res.append(Shadow(obs_dense(task, V, axV), axV, trV, tuple(V.n), a.sym, False))
        return res


@register
class OpEighGram(Op):
    """G = a . a^dagger over a bipartition, eigh(G), recombined U S U^dagger (gauge free) = G."""
    name = "eigh_gram"

    def gen(self, g):
        a = g.pick_tensor(lambda s, v, sh: sh is not None and not sh.isdiag and sh.ndim >= 2 and len(sh.axes) <= 5 and v.size > 0)
        if a is None:
            return None
        sa = g.sh(a)
        l0, l1 = _bipartition(g, sa)
        if 2 * _total_leaves(sa, l0) > 6:
            return None
        gr = sa.groups()
        d0 = int(np.prod([sa.axes[k].dim for i in l0 for k in gr[i]] or [1]))
        d1 = int(np.prod([sa.axes[k].dim for i in l1 for k in gr[i]] or [1]))
        if d0 * d0 > 1_000_000 or d0 * d0 * d1 > 50_000_000:
            return None          # dense work of the Gram matrix and of its model (one seed spent > 5 min here)
        return {"op": "eigh_gram", "in": [a], "args": {"axes": [l0, l1], "s": g.rng.choice([-1, 1])}}

    def run(self, task, rec, ins):
        a, ar = ins[0], rec["args"]
        l0, l1 = ar["axes"]
        G = yastn.tensordot(a, a, axes=(tuple(l1), tuple(l1)), conj=(0, 1))
        k = len(l0)
        S, U = yastn.eigh(G, axes=(tuple(range(k)), tuple(range(k, 2 * k))), sU=ar["s"])
        return [yastn.tensordot(U @ S, U, axes=(k, k), conj=(0, 1))]

    def shadow(self, task, rec, sins, outs, ins=None):
        a, ar = sins[0], rec["args"]
        l0, l1 = ar["axes"]
        return [tensordot_shadow(a, conj_shadow(a), l1, l1)]


@register
class OpObserve(Op):
    """Read-only part of the public surface (returns no tensor): must leave everything untouched."""
    name = "observe"

    def nout(self, rec):
        return 0

    def gen(self, g):
        a = g.pick_tensor()
        if a is None:
            return None
        return {"op": "observe", "in": [a], "args": {}}

    def run(self, task, rec, ins):
        import io
        a = ins[0]
        a.get_legs(); a.get_legs(native=True); a.get_shape(); a.get_shape(native=True); a.get_signature(); a.get_rank()
        a.get_tensor_charge(); a.get_blocks_charge(); a.get_blocks_shape(); a.get_dtype(); a.is_complex(); a.is_consistent()
        a.to_numpy(); a.to_dense(); a.to_nonsymmetric(); str(a); repr(a); a.norm(); a.norm(p="inf")
        a.print_properties(file=io.StringIO()); a.print_blocks_shape(file=io.StringIO())
        a.allclose(a); a.are_independent(a.copy()); a.zero_of_dtype(); a.s; a.n; a.ndim; a.size; a.shape; a.dtype; a.yastn_dtype
        (a.s_n, a.ndim_n, a.isdiag, a.requires_grad, a.device, a.data, a.trans)
        if a.size == 1 or a.ndim == 0:
            try:
                a.to_number(); a.item()
            except YastnError:
                pass
        if a.isdiag and a.yastn_dtype != 'bool':
            yastn.entropy(abs(a))
        return []


@register
class OpNorm(Op):
    name = "norm"

    def gen(self, g):
        a = g.pick_tensor(lambda s, v, sh: sh is not None)
        if a is None:
            return None
        return {"op": "norm", "in": [a], "args": {"p": g.rng.choice(["fro", "inf"])}}

    def run(self, task, rec, ins):
        return [float(ins[0].norm(p=rec["args"]["p"]))]

    def shadow(self, task, rec, sins, outs, ins=None):
        a = sins[0]
        x = np.diag(a.arr) if a.isdiag else a.arr
        if rec["args"]["p"] == "fro":
            return [float(np.sqrt(np.sum(np.abs(x) ** 2)))]
        return [float(np.max(np.abs(x))) if x.size else 0.0]


@register
class OpSwapGate(Op):
    name = "swap_gate"
    shares = True

    def gen(self, g):
        a = g.pick_tensor(lambda s, v, sh: sh is not None and not sh.isdiag and sh.ndim >= 2)
        if a is None:
            return None
        sa = g.sh(a)
        p = list(range(sa.ndim))
        g.rng.shuffle(p)
        k = g.rng.choice([2, 2, 3, 4])
        p = p[:max(2, min(k, len(p)))]
        if len(p) == 3:
            axes = [[p[0], p[1]], p[2]] if g.rng.random() < 0.5 else [p[0], [p[1], p[2]]]
        elif len(p) == 4:
            axes = g.rng.choice([[p[0], p[1], p[2], p[3]], [[p[0], p[1]], [p[2], p[3]]], [[p[0], p[1], p[2]], p[3]]])
        else:
            axes = p
        return {"op": "swap_gate", "in": [a], "args": {"axes": axes}}

    def run(self, task, rec, ins):
        axes = tuple(tuple(x) if isinstance(x, list) else x for x in rec["args"]["axes"])
        return [ins[0].swap_gate(axes=axes)]

    def shadow(self, task, rec, sins, outs, ins=None):
        a = sins[0]
        return [swap_gate_shadow(a, rec["args"]["axes"], task.cfgspec.get("fermionic", False))]


def parity_vector(u, fermionic):
    v = np.zeros(u.dim, dtype=np.int64)
    for t, (o0, o1) in zip(u.ts, zip(u._off[:-1], u._off[1:])):
        v[o0:o1] = u.sym.parity(t, fermionic)
    return v


def swap_gate_shadow(a, axes, fermionic):
    if isinstance(fermionic, list):
        fermionic = tuple(fermionic)
    if not fermionic or a.sym.nsym == 0:
        return a
    if fermionic is True:
        flags = (True,) * a.sym.nsym
    else:
        flags = tuple(fermionic)
    groups = [x if isinstance(x, list) else [x] for x in axes]
    gr = a.groups()
    sign = np.ones(a.arr.shape, dtype=np.int64)
    nd = a.arr.ndim
    # contributions from each fermionic charge component get multiplied
    for comp, f in enumerate(flags):
        if not f:
            continue
        fl = tuple(i == comp for i in range(a.sym.nsym))
        for g0, g1 in zip(groups[0::2], groups[1::2]):
            P = []
            for grp in (g0, g1):
                p = np.zeros((1,) * nd, dtype=np.int64)
                for leg in grp:
                    for k in gr[leg]:
                        shp = [1] * nd
                        shp[k] = a.axes[k].dim
                        p = p + parity_vector(a.axes[k], fl).reshape(shp)
                P.append(p % 2)
            sign = sign * (1 - 2 * ((P[0] * P[1]) % 2))
    return Shadow(a.arr * sign, a.axes, a.tree, a.n, a.sym, a.isdiag)


# ----------------------------------------------------------------------------------
# comparison of a real value with its shadow (the C01 oracle)
# ----------------------------------------------------------------------------------

def compare(task, value, sh, prop="C01", what=""):
    """Raise Violation if real value and shadow disagree on legs, charge or dense values."""
    V = core.Violation
    if sh is None:
        return
    if not isinstance(sh, Shadow):
        if isinstance(value, yastn.Tensor):
            raise V(prop, "type", "%s: expected a number, got a tensor" % what)
        tol = 1e-11 * max(1.0, abs(sh)) * 10
        if abs(complex(value) - complex(sh)) > tol:
            raise V(prop, "value", "%s: number %r, dense model %r" % (what, value, sh))
        return
    if not isinstance(value, yastn.Tensor):
        raise V(prop, "type", "%s: expected a tensor, got %r" % (what, type(value)))
    if bool(value.isdiag) != bool(sh.isdiag):
        raise V(prop, "isdiag", "%s: isdiag=%s, model says %s" % (what, value.isdiag, sh.isdiag))
    if value.ndim != sh.ndim:
        raise V(prop, "rank", "%s: rank %d, model says %d" % (what, value.ndim, sh.ndim))
    if sh.sym.nsym and tuple(value.n) != tuple(sh.n):
        raise V(prop, "charge", "%s: total charge %s, model says %s" % (what, value.n, sh.n))
    # logical-leg signatures: first elementary axis of each group
    gr = sh.groups()
    s_model = tuple(sh.axes[g[0]].s for g in gr)
    if tuple(value.s) != s_model:
        raise V(prop, "signature", "%s: signature %s, model says %s" % (what, value.s, s_model))
    try:
        y = unfuse_all(value)
    except Exception as e:  # noqa: BLE001 -- a returned tensor that cannot be unfused is malformed
        raise V(prop, "result-cannot-be-unfused", "%s: complete unfusing of the result raises %s: %s" % (what, type(e).__name__, str(e)[:120]))
    if not y.isdiag:
        if y.ndim != len(sh.axes):
            raise V(prop, "rank-after-unfuse", "%s: rank %d after complete unfusing, model says %d" % (what, y.ndim, len(sh.axes)))
        s_el = tuple(u.s for u in sh.axes)
        if tuple(y.s) != s_el:
            raise V(prop, "signature", "%s: elementary signature %s, model says %s" % (what, y.s, s_el))
        lg = {i: u.yleg(yastn, task.cfg) for i, u in enumerate(sh.axes)}
    else:
        lg = {0: sh.axes[0].yleg(yastn, task.cfg), 1: sh.axes[1].yleg(yastn, task.cfg)}
    try:
        arr = y.to_numpy(legs=lg)
    except YastnError as e:
        raise V(prop, "legs", "%s: result legs are not sub-legs of the model legs: %s" % (what, e))
    if arr.shape != sh.arr.shape:
        raise V(prop, "shape", "%s: dense shape %s, model says %s" % (what, arr.shape, sh.arr.shape))
    tol = _tol(sh.arr) * 10
    if arr.size and not np.allclose(arr, sh.arr, rtol=0, atol=tol):
        d = float(np.max(np.abs(arr - sh.arr)))
        raise V(prop, "value", "%s: dense values differ from the NumPy model by %.3e (tol %.1e)" % (what, d, tol))
    if np.iscomplexobj(sh.arr) != bool(value.is_complex()) and arr.size:
        # the model's dtype class is authoritative only one way: complex model => complex result
        if np.iscomplexobj(sh.arr) and np.any(np.imag(sh.arr) != 0):
            raise V(prop, "dtype", "%s: real result where the model is complex" % what)


def cross_check_views(task, value, prop="C01", what=""):
    """Block access, to_numpy, to_nonsymmetric and get_legs describe one and the same array."""
    V = core.Violation
    if not isinstance(value, yastn.Tensor):
        return
    dense_size = 1
    for lg in value.get_legs(native=True):
        dense_size *= max(1, sum(lg.D))
    if dense_size > 4_000_000:       # same size bound as the dense model
        w = core.current_world()
        if w is not None:
            w.probes["views_of_very_large_tensor_not_cross_checked"] += 1
        return
    ref, nb = native_reassemble(value)
    a1 = value.to_numpy(native=True)
    if a1.shape != ref.shape or not np.array_equal(a1, ref):
        raise V(prop, "views-to_numpy", "%s: to_numpy(native) differs from the array assembled from blocks and get_legs" % what)
    ns = value.to_nonsymmetric(native=True)
    if ref.size and nb:
        try:
            a2 = ns[()]
        except YastnError:
            a2 = None
        if a2 is not None:
            a2 = np.diag(a2) if value.isdiag else a2
            if a2.shape != ref.shape or not np.array_equal(a2, ref):
                raise V(prop, "views-to_nonsymmetric", "%s: to_nonsymmetric differs from the array assembled from blocks" % what)
    a3 = value.to_dense(native=True)
    if not np.array_equal(np.asarray(a3), ref):
        raise V(prop, "views-to_dense", "%s: to_dense differs from the array assembled from blocks" % what)
    if not value.isdiag:
        shp = value.get_shape(native=True)
        if tuple(shp) != ref.shape:
            raise V(prop, "views-get_shape", "%s: get_shape %s vs assembled %s" % (what, shp, ref.shape))


DEFAULT_WEIGHTS = {
    "rand": 3, "rand_diag": 1, "add": 3, "scal": 1.5, "conj": 2, "transpose": 3, "tensordot": 6, "vdot": 1.5,
    "trace": 2, "broadcast": 1.5, "apply_mask": 1, "diag": 1, "add_leg": 1, "remove_leg": 1, "fuse": 3,
    "fuse_pair": 2, "unfuse": 2, "meta_to_hard": 0.7, "elementwise": 1.5, "copy": 1.5, "ncon": 1.5,
    "factor_recombine": 1, "svd": 1, "norm": 0.5, "swap_gate": 1, "eigh_gram": 0.7, "observe": 0.3, "pair_unary": 1.5, "flip": 1.2, "drop_history": 0.7,
}


def generate_program(task, rng, world, nops, weights=None, on_op=None, seed_tensors=2):
    """Generation pass: draws ops while executing them (real + shadow).  Returns the program."""
    w = dict(DEFAULT_WEIGHTS if weights is None else weights)
    names = sorted(w)
    g = Gen(task, rng, world)
    for _ in range(seed_tensors):
        rec = OPS["rand"].gen(g)
        _emit_checked(g, rec, on_op)
    tries = 0
    while len(g.program) < nops and tries < nops * 8:
        tries += 1
        name = rng.choices(names, [w[k] for k in names])[0]
        n0 = len(g.program)
        g.on_op = on_op
        rec = OPS[name].gen(g)
        if on_op is not None:
            for r in g.program[n0:]:
                if not r.get("_seen"):
                    r["_seen"] = True
                    on_op(task, r)
        if rec is None:
            continue
        _emit_checked(g, rec, on_op)
    for r in g.program:
        r.pop("_seen", None)
    return g.program


def _emit_checked(g, rec, on_op):
    if world_begin(g):
        pass
    g.emit(rec)
    if on_op is not None:
        rec["_seen"] = True
        on_op(g.task, rec)


def world_begin(g):
    return False


_orig_gen_emit = gen_emit


def gen_emit(g, rec, world):  # noqa: F811  (adds begin_op so that inner faults get addresses)
    rec["id"] = g.uid
    g.uid += 1
    rec["out"] = [g.task.new_slot() for _ in range(nout(rec))]
    if world is not None:
        world.begin_op(g.task.id, rec["id"])
    g.program.append(rec)
    try:
        execute(g.task, rec, world, shadow=True)
    except BaseException as e:
        e.verif_rec = rec
        raise
    return rec["out"]


Gen.emit = lambda self, rec: gen_emit(self, rec, self.world)
