"""Dense Jordan-Wigner reference model.

Conventions (from the yastn documentation of fkron / swap_gate / operator classes):
 * site 0 is first in the fermionic order;
 * an operator O of charge n placed on site k is  S_n^{(x) k} (x) O (x) 1 ... , where the string
   S_n is diagonal in the charge basis with entries  prod_{c fermionic} (-1)^{n_c t_c}
   (contributions of the charge components declared fermionic get multiplied);
 * products are ordinary matrix products: in `A B` the operator B acts first.
Single-site matrices are taken as dense arrays over one fixed site basis (sectors sorted by
charge, D states each); the model never looks into yastn beyond to_numpy(legs=space) of
rank-2 on-site operators, which it treats as input data.
"""
import functools

import numpy as np

from .group import Sym


def flags_of(sym, fermionic):
    if fermionic is False or sym.nsym == 0:
        return (False,) * sym.nsym
    if fermionic is True:
        return (True,) * sym.nsym
    return tuple(bool(x) for x in fermionic)


def sign(sym, fermionic, n, t):
    """(-1)^{parity overlap of charges n and t} under the fermionic flags."""
    s = 1
    for c, f in enumerate(flags_of(sym, fermionic)):
        if f and (n[c] * t[c]) % 2:
            s = -s
    return s


class SiteSpace:
    """Basis of one site: sectors (t, D) in sorted order."""

    def __init__(self, sym, ts, Ds):
        self.sym = sym if isinstance(sym, Sym) else Sym(sym)
        order = sorted(range(len(ts)), key=lambda i: tuple(ts[i]))
        self.ts = [tuple(ts[i]) for i in order]
        self.Ds = [int(Ds[i]) for i in order]
        self.dim = sum(self.Ds)
        self.state_t = [t for t, d in zip(self.ts, self.Ds) for _ in range(d)]

    @staticmethod
    def from_leg(sym, leg):
        ts = [tuple(t) for t in leg.t] if (sym if isinstance(sym, Sym) else Sym(sym)).nsym else [()]
        return SiteSpace(sym, ts, list(leg.D))

    def string(self, fermionic, n):
        return np.diag([float(sign(self.sym, fermionic, n, t)) for t in self.state_t])


def kron_all(mats):
    return functools.reduce(np.kron, mats, np.eye(1))


def site_op(spaces, fermionic, k, O, n):
    """Dense matrix of on-site matrix O (charge n) acting on site k of the chain `spaces`."""
    mats = []
    for j, sp in enumerate(spaces):
        if j < k:
            mats.append(sp.string(fermionic, n))
        elif j == k:
            mats.append(np.asarray(O))
        else:
            mats.append(np.eye(sp.dim))
    return kron_all(mats)


def product(spaces, fermionic, terms):
    """terms: [(site, O, n), ...] in written order (the last one acts first)."""
    dim = int(np.prod([sp.dim for sp in spaces]))
    M = np.eye(dim, dtype=complex)
    for k, O, n in terms:
        M = M @ site_op(spaces, fermionic, k, O, n)
    return M


def dense_from_legs_pairs(arr, nsites):
    """yastn layout (ket0, bra0, ket1, bra1, ...) -> matrix [(ket0 ket1 ..), (bra0 bra1 ..)]."""
    perm = list(range(0, 2 * nsites, 2)) + list(range(1, 2 * nsites, 2))
    a = np.transpose(arr, perm)
    d = int(np.prod(a.shape[:nsites]))
    return a.reshape(d, d)
