"""Group laws of the symmetries shipped with yastn, written from the documentation.

Independent of yastn.sym.*: charges are tuples of ints; component i lives in Z_m for
modulus m > 0 and in Z for m == 0.
"""

MODS = {
    "dense": (),
    "Z2": (2,),
    "Z3": (3,),
    "U1": (0,),
    "Z2xU1": (2, 0),
    "U1xU1": (0, 0),
    "U1xU1xZ2": (0, 0, 2),
}

SYM_NAMES = ("dense", "Z2", "Z3", "U1", "Z2xU1", "U1xU1", "U1xU1xZ2")


class Sym:
    def __init__(self, name):
        self.name = name
        self.mods = MODS[name]
        self.nsym = len(self.mods)

    def zero(self):
        return (0,) * self.nsym

    def canon(self, t):
        return tuple((x % m) if m else x for x, m in zip(t, self.mods))

    def fuse(self, ts, ss):
        """sum_i s_i * t_i in the group."""
        out = [0] * self.nsym
        for t, s in zip(ts, ss):
            for i in range(self.nsym):
                out[i] += s * t[i]
        return self.canon(out)

    def neg(self, t):
        return self.canon(tuple(-x for x in t))

    def add(self, a, b):
        return self.canon(tuple(x + y for x, y in zip(a, b)))

    def sub(self, a, b):
        return self.canon(tuple(x - y for x, y in zip(a, b)))

    def scale(self, s, t):
        return self.canon(tuple(s * x for x in t))

    def parity(self, t, fermionic):
        """Parity (0/1) of charge t under the fermionic flags (False | True | tuple)."""
        if fermionic is False or self.nsym == 0:
            return 0
        if fermionic is True:
            flags = (True,) * self.nsym
        else:
            flags = tuple(fermionic)
        return sum(x for x, f in zip(t, flags) if f) % 2


def yastn_sym_arg(name):
    """How to ask yastn for this symmetry (Z2xU1 is not in make_config's string table)."""
    if name == "Z2xU1":
        from yastn.sym import sym_Z2xU1
        return sym_Z2xU1
    return name
