"""Dense vector / matrix of an MPS / MPO contracted by the model from the site tensors,
INCLUDING central block and factor (MpsMpoOBC.to_tensor ignores the central block).

Neighbouring virtual legs may list different charge sectors: each bond is embedded in the union of
the sectors of the two legs that meet there (missing sectors are zeros).
"""
import numpy as np


def chain(psi):
    """Tensors in chain order with the central block (if any) in its place: [(kind, tensor), ...]."""
    out = []
    N = psi.N
    for n in range(N):
        if psi.pC == (n - 1, n):
            out.append(("C", psi.A[psi.pC]))
        out.append(("A", psi.A[n]))
    if psi.pC == (N - 1, N):
        out.append(("C", psi.A[psi.pC]))
    return out


def dense(yastn, psi, space, bra_space=None):
    """ndarray with axes (p0..pN-1) for an MPS, (k0..kN-1, b0..bN-1) for an MPO."""
    ch = chain(psi)
    nr = psi.nr_phys
    if any(x.size == 0 for _, x in ch):       # a tensor without blocks: the zero state
        d = sum(space.D)
        return np.zeros((d,) * (psi.N * nr))
    bra_space = bra_space if bra_space is not None else space.conj()
    rleg = {"A": 2, "C": 1}
    unions = []
    for (k1, x), (k2, y) in zip(ch[:-1], ch[1:]):
        lx, ly = x.get_legs(rleg[k1]), y.get_legs(0)
        if hasattr(lx, "legs") or hasattr(ly, "legs"):   # meta-fused virtual legs: resolve to hard fusion first
            return dense(yastn, _to_hard(psi), space, bra_space)
        unions.append(yastn.legs_union(lx, ly.conj()))
    arrs = []
    for i, (k, x) in enumerate(ch):
        lg = {}
        if i > 0:
            lg[0] = unions[i - 1].conj()
        if i < len(ch) - 1:
            lg[rleg[k]] = unions[i]
        if k == "A":
            # conj()/transpose() flip the signature of the physical legs: embed in the universe leg of matching signature
            lg[1] = space if x.get_legs(1).s == space.s else space.conj()
            if nr == 2:
                lg[3] = bra_space if x.get_legs(3).s == bra_space.s else bra_space.conj()
        a = x.to_numpy(legs=lg)
        if k == "A" and nr == 2:
            a = np.transpose(a, (0, 1, 3, 2))
        arrs.append(a)
    M = arrs[0]
    for a in arrs[1:]:
        M = np.tensordot(M, a, axes=(M.ndim - 1, 0))
    if M.shape[0] != 1 or M.shape[-1] != 1:
        raise ValueError("outer virtual legs of dimension %s, %s" % (M.shape[0], M.shape[-1]))
    M = M.reshape(M.shape[1:-1]) * psi.factor
    if nr == 2:
        N = psi.N
        M = np.transpose(M, list(range(0, 2 * N, 2)) + list(range(1, 2 * N, 2)))
    return M


def _to_hard(psi):
    phi = psi.shallow_copy()
    for k in list(phi.A):
        phi.A[k] = phi.A[k].fuse_meta_to_hard()
    return phi


def as_matrix(arr, N):
    d = int(np.prod(arr.shape[:N]))
    return arr.reshape(d, -1)
