"""Dense shadow of a symmetric tensor (reference model for C01/C03/C02-I5).

A shadow is a dense ndarray over *elementary* legs, each embedded in a fixed universe
leg (ULeg: all sectors of that leg, so missing sectors are explicit zeros), plus a
grouping tree saying which elementary axes make up each (possibly nested, hard- or
meta-) fused leg, plus the expected total charge.  The fused basis is deliberately not
modelled: an operation on fused legs is an operation on groups of elementary axes and
observation is through complete unfusing.
"""
import itertools

import numpy as np

from .group import Sym


class ULeg:
    """Universe leg: signature, sorted sector charges, sector dimensions."""
    __slots__ = ("sym", "s", "ts", "Ds", "_off")

    def __init__(self, sym, s, ts, Ds):
        self.sym = sym if isinstance(sym, Sym) else Sym(sym)
        order = sorted(range(len(ts)), key=lambda i: tuple(ts[i]))
        self.s = int(s)
        self.ts = tuple(tuple(int(x) for x in ts[i]) for i in order)
        self.Ds = tuple(int(Ds[i]) for i in order)
        off = [0]
        for d in self.Ds:
            off.append(off[-1] + d)
        self._off = tuple(off)

    @property
    def dim(self):
        return self._off[-1]

    def key(self):
        return (self.s, self.ts, self.Ds)

    def matchkey(self):
        """ts, Ds -- what has to agree (with opposite s) for a contraction."""
        return (self.ts, self.Ds)

    def conj(self):
        return ULeg(self.sym, -self.s, self.ts, self.Ds)

    def rng_of(self, t):
        i = self.ts.index(tuple(t))
        return self._off[i], self._off[i + 1]

    def flip_charges(self):
        """t -> -t, s -> -s; returns new ULeg and the index permutation old->new order."""
        nts = [self.sym.neg(t) for t in self.ts]
        new = ULeg(self.sym, -self.s, nts, self.Ds)
        perm = []
        for t in new.ts:
            i = nts.index(t)
            perm.extend(range(self._off[i], self._off[i + 1]))
        return new, perm

    def to_json(self):
        return {"s": self.s, "t": [list(t) for t in self.ts], "D": list(self.Ds)}

    @staticmethod
    def from_json(sym, d):
        return ULeg(sym, d["s"], [tuple(t) for t in d["t"]], d["D"])

    def yleg(self, yastn, cfg, subset=None):
        ts, Ds = self.ts, self.Ds
        if subset is not None:
            ts = tuple(ts[i] for i in subset)
            Ds = tuple(Ds[i] for i in subset)
        if self.sym.nsym == 0:
            return yastn.Leg(cfg, s=self.s, D=Ds[:1] if Ds else (1,))
        return yastn.Leg(cfg, s=self.s, t=ts, D=Ds)

    def __repr__(self):
        return "ULeg(s=%d,t=%s,D=%s)" % (self.s, self.ts, self.Ds)


# ---- grouping tree ----------------------------------------------------------------
# node := 'e' | [mode, [node, ...]]   with mode in {'h', 'm'}

def n_leaves(node):
    if node == "e":
        return 1
    return sum(n_leaves(c) for c in node[1])


def tree_to_hard(node):
    if node == "e":
        return "e"
    return ["h", [tree_to_hard(c) for c in node[1]]]


def has_meta(node):
    if node == "e":
        return False
    return node[0] == "m" or any(has_meta(c) for c in node[1])


def depth(node):
    if node == "e":
        return 0
    return 1 + max(depth(c) for c in node[1])


def shape_of(node):
    """Shape of a node ignoring modes (for compatibility tests)."""
    if node == "e":
        return "e"
    return tuple(shape_of(c) for c in node[1])


class Shadow:
    """Dense reference value of a tensor."""

    def __init__(self, arr, axes, tree, n, sym, isdiag=False):
        arr = np.asarray(arr)
        self.arr = arr                # ndarray over elementary axes (2-D matrix if isdiag)
        self.axes = list(axes)        # ULeg per elementary axis
        self.tree = list(tree)        # node per (logical) leg
        self.n = tuple(n)
        self.sym = sym if isinstance(sym, Sym) else Sym(sym)
        self.isdiag = isdiag
        assert arr.ndim == len(self.axes), (arr.shape, len(self.axes))
        assert sum(n_leaves(t) for t in self.tree) == len(self.axes)

    @property
    def ndim(self):
        return len(self.tree)

    def groups(self):
        """List of lists: elementary axis indices per logical leg."""
        out, k = [], 0
        for t in self.tree:
            m = n_leaves(t)
            out.append(list(range(k, k + m)))
            k += m
        return out

    def copy(self):
        return Shadow(self.arr.copy(), self.axes, [_cp(t) for t in self.tree], self.n, self.sym, self.isdiag)

    def legkey(self, i):
        g = self.groups()[i]
        return (freeze(self.tree[i]), tuple(self.axes[k].key() for k in g))

    def legmatch(self, i):
        """What a partner leg must equal after conj: (shape, (ts, Ds)..., signs)."""
        g = self.groups()[i]
        return (freeze(self.tree[i]), tuple(self.axes[k].matchkey() for k in g), tuple(self.axes[k].s for k in g))

    def structkey(self):
        return (tuple(self.legkey(i) for i in range(self.ndim)), self.n, self.isdiag)

    def is_complex(self):
        return np.iscomplexobj(self.arr)

    def any_fused(self):
        return any(t != "e" for t in self.tree)

    def hard_modes(self):
        return [t != "e" and t[0] == "h" for t in self.tree]


def freeze(node):
    """Hashable form of a node including fusion modes."""
    if node == "e":
        return "e"
    return (node[0], tuple(freeze(c) for c in node[1]))


def _cp(node):
    if node == "e":
        return "e"
    return [node[0], [_cp(c) for c in node[1]]]


def allowed_mask(axes, n, sym):
    """Boolean array, True where the selection rule sum_i s_i t_i == n allows an element."""
    shape = tuple(a.dim for a in axes)
    mask = np.zeros(shape, dtype=bool)
    if sym.nsym == 0:
        mask[...] = True
        return mask
    for combo in itertools.product(*[range(len(a.ts)) for a in axes]):
        ts = [axes[k].ts[i] for k, i in enumerate(combo)]
        ss = [a.s for a in axes]
        if sym.fuse(ts, ss) == tuple(n):
            sl = tuple(slice(axes[k]._off[i], axes[k]._off[i + 1]) for k, i in enumerate(combo))
            mask[sl] = True
    return mask
