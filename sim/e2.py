"""E2 — the MPS world: op catalogue over MPS/MPO objects with dense reference values.

Ops are registered in the same registry as E1 (names prefixed 'm_') and run through e1.execute, so
programs, schedules, inner fault addressing, replay and minimisation are shared.  A task's
configuration names an operator family, a symmetry and a chain length; the shadow of an MPS is a
dense ndarray (p0..pN-1), of an MPO a dense ndarray (k0..kN-1, b0..bN-1), of a number a number.
"""
import itertools

import numpy as np

from . import core, e1
from .core import yastn
from .models import jw, mps_dense
from .models.group import Sym

import yastn.tn.mps as mps

V = core.Violation
OPS_ = e1.OPS

FAMILIES = {
    "SpinlessFermions": ["Z2", "U1"],
    "SpinfulFermions": ["Z2", "U1", "U1xU1", "U1xU1xZ2"],
    "Spin12": ["dense", "Z2", "U1"],
    "Spin1": ["dense", "Z3", "U1"],
    "Qdit": ["dense"],
}


class Space:
    """Operator family in one symmetry: local space, on-site operators (yastn + dense), charges."""

    def __init__(self, family, sym, knobs=None, d=3):
        import yastn.operators as yo
        kw = dict(knobs or {})
        self.family, self.symname = family, sym
        if family == "Qdit":
            self.ops = yo.Qdit(d=d, **kw)
        else:
            self.ops = getattr(yo, family)(sym=sym, **kw)
        self.cfg = self.ops.config
        sid = getattr(self.cfg.sym, "SYM_ID", "dense")
        self.sym = Sym({"none": "dense", "U(1)": "U1"}.get(sid, sid))
        self.leg = self.ops.space()
        self.site = jw.SiteSpace.from_leg(self.sym, self.leg)
        self.d = self.site.dim
        self.fermionic = self.cfg.fermionic
        self.table = self._table()
        self.dense_ops = {k: v.to_numpy(legs={0: self.leg, 1: self.leg.conj()}) for k, v in self.table.items()}

    def _table(self):
        o, f = self.ops, self.family
        if f == "SpinlessFermions":
            return {"I": o.I(), "n": o.n(), "c": o.c(), "cp": o.cp()}
        if f == "SpinfulFermions":
            return {"I": o.I(), "nu": o.n("u"), "nd": o.n("d"), "cu": o.c("u"), "cd": o.c("d"), "cpu": o.cp("u"), "cpd": o.cp("d")}
        if f == "Spin12":
            return {"I": o.I(), "z": o.z(), "sp": o.sp(), "sm": o.sm()}
        if f == "Spin1":
            return {"I": o.I(), "sz": o.sz(), "sp": o.sp(), "sm": o.sm()}
        return {"I": o.I()}

    def neutral(self):
        return [k for k, v in self.table.items() if not any(v.n)]

    def charged(self):
        return [k for k, v in self.table.items() if any(v.n)]

    def basis_vectors(self):
        """(charge, index in the site basis) for every basis state."""
        out = []
        i = 0
        for t, D in zip(self.site.ts, self.site.Ds):
            for _ in range(D):
                out.append((t, i))
                i += 1
        return out

    def vec(self, idx):
        """On-site basis vector number idx as a yastn tensor."""
        t, _ = self.basis_vectors()[idx]
        off = sum(D for tt, D in zip(self.site.ts, self.site.Ds) if tt < t)
        loc = idx - off
        D = self.site.Ds[self.site.ts.index(t)]
        x = yastn.Tensor(config=self.cfg, s=(1,), n=t if self.sym.nsym else None)
        val = np.zeros(D)
        val[loc] = 1.0
        if self.sym.nsym:
            x.set_block(ts=t, Ds=(D,), val=val)
        else:
            x.set_block(Ds=(D,), val=val)
        return x

    def hermitian_terms(self, rng, N, nterms):
        """Random Hermitian Hamiltonian as a list of term specs [amp(re,im), positions, op names] (h.c. included)."""
        terms = []
        f = self.family
        for _ in range(nterms):
            a = round(rng.uniform(-1, 1), 3) or 0.5
            kind = rng.random()
            if f in ("SpinlessFermions", "SpinfulFermions"):
                sp = "" if f == "SpinlessFermions" else rng.choice(["u", "d"])
                if kind < 0.5 and N >= 2:
                    i, j = rng.sample(range(N), 2)
                    ph = round(rng.uniform(-1, 1), 3) if rng.random() < 0.3 else 0.0
                    terms.append([[a, ph], [i, j], ["cp" + sp, "c" + sp]])
                    terms.append([[a, -ph], [j, i], ["cp" + sp, "c" + sp]])
                elif kind < 0.8 and N >= 2:
                    i, j = rng.sample(range(N), 2)
                    sp2 = "" if f == "SpinlessFermions" else rng.choice(["u", "d"])
                    terms.append([[a, 0.0], [i, j], ["n" + sp, "n" + sp2]])
                else:
                    terms.append([[a, 0.0], [rng.randrange(N)], ["n" + sp]])
            elif f in ("Spin12", "Spin1"):
                zz = "z" if f == "Spin12" else "sz"
                if kind < 0.5 and N >= 2:
                    i, j = rng.sample(range(N), 2)
                    terms.append([[a, 0.0], [i, j], ["sp", "sm"]])
                    terms.append([[a, 0.0], [j, i], ["sp", "sm"]])
                elif kind < 0.8 and N >= 2:
                    i, j = rng.sample(range(N), 2)
                    terms.append([[a, 0.0], [i, j], [zz, zz]])
                else:
                    terms.append([[a, 0.0], [rng.randrange(N)], [zz]])
            else:
                terms.append([[a, 0.0], [], []])
        return terms

    def dense_terms(self, N, terms, f_map=None):
        """Dense matrix of sum_k amp_k prod (operators in written order, last acts first), Jordan-Wigner strings in the
        fermionic order given by f_map (position of each site in the fermionic order; None = site order)."""
        d = self.d
        H = np.zeros((d ** N, d ** N), dtype=complex)
        for amp, pos, names in terms:
            a = complex(*amp) if isinstance(amp, (list, tuple)) else amp
            H = H + a * self.dense_product(N, pos, names, f_map)
        return H

    def dense_product(self, N, pos, names, f_map=None):
        d = self.d
        if f_map is None:
            tl = [(p, self.dense_ops[nm], tuple(self.table[nm].n)) for p, nm in zip(pos, names)]
            return jw.product([self.site] * N, self.fermionic, tl)
        # fermionic order differs from the site order: build in fermionic order, then permute sites back
        inv = list(f_map)
        tl = [(inv[p], self.dense_ops[nm], tuple(self.table[nm].n)) for p, nm in zip(pos, names)]
        M = jw.product([self.site] * N, self.fermionic, tl).reshape((d,) * (2 * N))
        # axis k of M is fermionic position k = site s with f_map[s] == k
        perm = [inv[s] for s in range(N)]
        M = np.transpose(M, perm + [N + x for x in perm])
        return M.reshape(d ** N, d ** N)

    def hterms(self, terms):
        return [mps.Hterm(complex(*amp) if amp[1] else amp[0], tuple(pos), tuple(self.table[nm] for nm in names)) for amp, pos, names in terms]

    def sector_mask(self, N, n):
        """Boolean mask over the d^N basis: states of total charge n."""
        ts = self.site.state_t
        mask = np.zeros((self.d,) * N, dtype=bool)
        if self.sym.nsym == 0:
            mask[...] = True
            return mask.reshape(-1)
        for idx in itertools.product(range(self.d), repeat=N):
            tot = self.sym.fuse([ts[i] for i in idx], [1] * N)
            if tot == tuple(n):
                mask[idx] = True
        return mask.reshape(-1)


_SPACES = {}


def space_of(task):
    key = (task.cfgspec["family"], task.cfgspec["sym"], task.cfgspec.get("tensordot_policy"), task.cfgspec.get("default_fusion"), task.cfgspec.get("qd", 3))
    if key not in _SPACES:
        knobs = {k: task.cfgspec[k] for k in ("tensordot_policy", "default_fusion") if task.cfgspec.get(k)}
        _SPACES[key] = Space(key[0], key[1], knobs, d=task.cfgspec.get("qd", 3))
    return _SPACES[key]


class Task2(e1.Task):
    def __init__(self, tid, cfgspec):
        self.id = tid
        self.cfgspec = dict(cfgspec)
        self.sym = Sym(cfgspec["sym"])
        self.universe = []
        self.slots, self.shadows, self.extra_ulegs = {}, {}, {}
        self.next_slot = 0
        self.space = space_of(self)
        self.cfg = self.space.cfg
        self.N = cfgspec["N"]

    def spec(self):
        return {"id": self.id, "config": self.cfgspec, "universe": []}


def task_from_spec(spec):
    return Task2(spec["id"], spec["config"])


def dense_of(task, x):
    return mps_dense.dense(yastn, x, task.space.leg)


def has_meta_legs(v):
    """Some virtual leg of the MPS/MPO is meta-fused (what multiply(mode='meta') leaves behind)."""
    if not isinstance(v, mps.MpsMpoOBC):
        return False
    for A in v.A.values():
        if any(m != (1,) for m in A.mfs):
            return True
    return False


def derived_from_meta_product(task, slot, _seen=None):
    """The object in `slot` is (a sum / product / view of) the result of multiply(mode='meta'): its virtual legs are, or are blocks of, meta-fused legs."""
    seen = _seen if _seen is not None else set()
    if slot in seen:
        return False
    seen.add(slot)
    if has_meta_legs(task.slots.get(slot)):
        return True
    for r in getattr(task, "progs", {}).values():
        if slot in r.get("out", []) or (OPS_[r["op"]].inplace and r["in"][:1] == [slot]):
            if r["op"] == "m_matmul" and r["args"].get("mode") == "meta":
                return True
            if any(derived_from_meta_product(task, s, seen) for s in r["in"] if s != slot):
                return True
    return False


def known_meta_product(task, rec, exc):
    """Known finding K-C06-meta-product: see /verif/known_findings.json."""
    meta_cfg = task.cfgspec.get("default_fusion") == "meta"
    if isinstance(exc, (yastn.YastnError, ValueError)) and (meta_cfg or any(derived_from_meta_product(task, s) for s in rec["in"])):
        core.known_hit("K-%s-meta-product" % getattr(core.current_world(), "prop", "C06"))
        return True
    return False


def is_mps(v):
    return isinstance(v, mps.MpsMpoOBC) and v.nr_phys == 1


def is_mpo(v):
    return isinstance(v, mps.MpsMpoOBC) and v.nr_phys == 2


def objs(task, pred):
    return [s for s, v in task.slots.items() if isinstance(v, mps.MpsMpoOBC) and pred(v, task.shadows.get(s))]


def nonzero(sh):
    return sh is not None and np.asarray(sh).size > 0 and float(np.max(np.abs(sh))) > 1e-9


def outer_legs(v):
    return (v.virtual_leg("first"), v.virtual_leg("last"))


def pick(g, pred, allow_zero=False):
    if not allow_zero:
        # exactly cancelled (zero) states/operators are degenerate inputs (empty tensors): kept out of binary ops and measurements
        p0 = pred
        pred = lambda v, sh: nonzero(sh) and p0(v, sh)      # noqa: E731
    c = objs(g.task, pred)
    if not c:
        return None
    if g.rng.random() < 0.5:
        c = c[-4:]
    return g.rng.choice(c)


def charge_of(task, arr):
    """Total charge sector(s) on which a dense MPS vector has support."""
    sp = task.space
    v = np.asarray(arr).reshape(-1)
    if sp.sym.nsym == 0:
        return ()
    ts = sp.site.state_t
    N = task.N
    found = set()
    nz = np.nonzero(np.abs(v) > 1e-13 * max(1.0, float(np.max(np.abs(v))) if v.size else 1.0))[0]
    for flat in nz[:2000]:
        idx = np.unravel_index(flat, (sp.d,) * N)
        found.add(sp.sym.fuse([ts[i] for i in idx], [1] * N))
    return found


def compare_dense(task, x, sh, prop, what, tol=1e-10):
    if sh is None:
        return
    if isinstance(x, mps.MpsMpoOBC):
        try:
            got = dense_of(task, x)
        except Exception as e:  # noqa: BLE001 -- a returned MPS/MPO that cannot be contracted is malformed
            raise V(prop, "object-cannot-be-contracted", "%s: contracting the returned object raises %s: %s" % (what, type(e).__name__, str(e)[:120]))
        if got.shape != np.asarray(sh).shape:
            raise V(prop, "shape", "%s: dense shape %s, model %s" % (what, got.shape, np.asarray(sh).shape))
        sc = max(1.0, float(np.max(np.abs(sh))) if np.asarray(sh).size else 1.0)
        if not np.allclose(got, sh, rtol=0, atol=tol * sc):
            raise V(prop, "value", "%s: dense object differs from the model by %.3e (scale %.2e)" % (what, float(np.max(np.abs(got - sh))), sc))
    else:
        sc = max(1.0, abs(complex(sh)))
        if abs(complex(x) - complex(sh)) > tol * sc * 10:
            raise V(prop, "value", "%s: number %r, model %r" % (what, x, sh))


# ----------------------------------------------------------------------------------------------------------
# creation
# ----------------------------------------------------------------------------------------------------------

@e1.register
class MRandomMps(e1.Op):
    name = "m_random_mps"
    creates = True
    readback = True

    def gen(self, g, mpo=False):
        rng, t = g.rng, g.task
        sp = t.space
        n = None
        if sp.sym.nsym and not mpo:
            # a reachable total charge: sum of charges of a random product state
            ts = [rng.choice(sp.site.ts) for _ in range(t.N)]
            n = list(sp.sym.fuse(ts, [1] * t.N))
        return {"op": "m_random_mpo" if mpo else "m_random_mps", "in": [],
                "args": {"n": n, "D": rng.choice([1, 2, 3, 4, 6, 8]), "dtype": "complex128" if rng.random() < 0.3 else "float64"}}

    def run(self, task, rec, ins):
        a = rec["args"]
        I = mps.product_mpo(task.space.table["I"], task.N)
        kw = {}
        if a["n"] is not None and task.space.sym.nsym:
            kw["n"] = tuple(a["n"])
        psi = mps.random_mps(I, D_total=a["D"], dtype=a["dtype"], **kw)
        return [psi]

    def shadow(self, task, rec, sins, outs, ins=None):
        return [dense_of(task, outs[0])]


@e1.register
class MRandomMpo(MRandomMps):
    name = "m_random_mpo"

    def gen(self, g):
        return MRandomMps.gen(self, g, mpo=True)

    def run(self, task, rec, ins):
        a = rec["args"]
        I = mps.product_mpo(task.space.table["I"], task.N)
        return [mps.random_mpo(I, D_total=a["D"], dtype=a["dtype"])]


@e1.register
class MProductMps(e1.Op):
    name = "m_product_mps"

    def gen(self, g):
        sp = g.task.space
        return {"op": "m_product_mps", "in": [], "args": {"states": [g.rng.randrange(sp.d) for _ in range(g.task.N)]}}

    def run(self, task, rec, ins):
        return [mps.product_mps([task.space.vec(i) for i in rec["args"]["states"]])]

    def shadow(self, task, rec, sins, outs, ins=None):
        d = task.space.d
        arr = np.zeros((d,) * task.N)
        arr[tuple(rec["args"]["states"])] = 1.0
        return [arr]


@e1.register
class MProductMpo(e1.Op):
    name = "m_product_mpo"

    def gen(self, g, force_charged=False):
        sp = g.task.space
        names = [g.rng.choice(sp.neutral()) for _ in range(g.task.N)]
        if sp.charged() and (force_charged or g.rng.random() < 0.5):
            names[g.rng.randrange(g.task.N)] = g.rng.choice(sp.charged())      # an MPO of non-zero total charge
        return {"op": "m_product_mpo", "in": [], "args": {"ops": names}}

    def run(self, task, rec, ins):
        return [mps.product_mpo([task.space.table[nm] for nm in rec["args"]["ops"]])]

    def shadow(self, task, rec, sins, outs, ins=None):
        sp = task.space
        M = jw.kron_all([sp.dense_ops[nm] for nm in rec["args"]["ops"]])
        return [M.reshape((sp.d,) * (2 * task.N))]


@e1.register
class MGenerateMpo(e1.Op):
    name = "m_generate_mpo"

    def gen(self, g):
        t = g.task
        terms = t.space.hermitian_terms(g.rng, t.N, g.rng.randint(1, 5))
        return {"op": "m_generate_mpo", "in": [], "args": {"terms": terms}}

    def run(self, task, rec, ins):
        sp = task.space
        I = mps.product_mpo(sp.table["I"], task.N)
        return [mps.generate_mpo(I, sp.hterms(rec["args"]["terms"]))]

    def shadow(self, task, rec, sins, outs, ins=None):
        sp = task.space
        H = sp.dense_terms(task.N, rec["args"]["terms"])
        return [H.reshape((sp.d,) * (2 * task.N))]


@e1.register
class MFromTensor(e1.Op):
    name = "m_from_tensor"
    creates = True
    readback = True

    def gen(self, g):
        t = g.task
        if t.N > 5:
            return None
        sp = t.space
        n = None
        if sp.sym.nsym:
            n = list(sp.sym.fuse([g.rng.choice(sp.site.ts) for _ in range(t.N)], [1] * t.N))
        return {"op": "m_from_tensor", "in": [], "args": {"n": n, "canonize": g.rng.choice(["last", "first", "balance"]), "dtype": "complex128" if g.rng.random() < 0.3 else "float64"}}

    def run(self, task, rec, ins):
        a, sp = rec["args"], task.space
        ten = yastn.rand(sp.cfg, legs=[sp.leg] * task.N, n=tuple(a["n"]) if a["n"] is not None and sp.sym.nsym else None, dtype=a["dtype"])
        self._ten = ten
        return [mps.mps_from_tensor(ten, nr_phys=1, canonize=a["canonize"])]

    def shadow(self, task, rec, sins, outs, ins=None):
        sp = task.space
        ref = self._ten.to_numpy(legs={i: sp.leg for i in range(task.N)})
        return [ref]


# ----------------------------------------------------------------------------------------------------------
# algebra (C06)
# ----------------------------------------------------------------------------------------------------------

def sig(v):
    """Signatures and fusion histories of all legs of all site tensors: what yastn compares before combining."""
    out = []
    for n in range(v.N):
        A = v.A[n]
        out.append((tuple(A.s), tuple(l.history() for l in A.get_legs())))
    return tuple(out)


def same_kind(v, w):
    return v.nr_phys == w.nr_phys and v.N == w.N and sig(v) == sig(w)


def applies_to(op, x):
    """MPO op can act on x (MPS or MPO): bra leg of op is opposite to the ket leg of x on every site."""
    return op.N == x.N and all(op.A[n].get_legs(3).s == -x.A[n].get_legs(1).s for n in range(x.N))


def braket(bra, ket):
    return bra.N == ket.N and all(bra.A[n].s == ket.A[n].s for n in range(ket.N))


def to_pbc(O, dn):
    """The OBC MPO O as a periodic MPO whose tensors are rotated by dn sites: the operator with site n relabelled (n + dn) % N
    (exact for non-fermionic spaces; the bond that wraps around the chain is the one between old sites N-dn-1 and N-dn)."""
    N = O.N
    P = mps.Mpo(N, periodic=True)
    for n in range(N):
        P[(n + dn) % N] = O[n].copy()
    P.factor = O.factor
    return P


def pbc_able(O, dn):
    """A chain can be closed into a ring only if its two end legs match (charge-neutral operator, no meta-fused virtual legs).
    The bond that ends up wrapping around must be an elementary leg: Env_mps_mpopbc_mps / _zipper_MpoPBC build eye(legs=<wrap leg>),
    which rejects legs carrying a block ('sum') history such as the virtual legs of mps.add results (observation, DESIGN 7.4)."""
    lf, ll = O.virtual_leg('first'), O.virtual_leg('last')
    if O.pC is not None or hasattr(lf, "legs") or hasattr(ll, "legs") or lf != ll.conj() or any(O.A[n].mfs != ((1,),) * 4 for n in range(O.N)):
        return False
    wrap = O.A[(-dn) % O.N].get_legs(0)       # first virtual leg of the tensor that becomes site 0
    return not wrap.is_fused()


def rotate_sites_dense(arr, N, dn):
    perm = [(m - dn) % N for m in range(N)]
    return np.transpose(arr, perm + [N + q for q in perm])


def _bosonic(space):
    f = space.fermionic
    return not (any(f) if isinstance(f, (tuple, list)) else f)


@e1.register
class MAdd(e1.Op):
    name = "m_add"

    def gen(self, g):
        a = pick(g, lambda v, sh: sh is not None and v.pC is None)
        if a is None:
            return None
        va = g.val(a)
        ca = charge_of(g.task, g.sh(a)) if va.nr_phys == 1 else None

        def ok(v, sh):
            if sh is None or v.pC is not None or not same_kind(v, va) or outer_legs(v) != outer_legs(va):
                return False
            if va.nr_phys == 1 and g.task.space.sym.nsym:
                cb = charge_of(g.task, sh)
                return bool(ca) and ca == cb       # (zero states carry a declared charge the dense value cannot show)
            return True
        k = g.rng.choice([2, 2, 3])
        ins = [a]
        for _ in range(k - 1):
            b = pick(g, ok)
            if b is None:
                return None
            ins.append(b)
        cplx = g.rng.random() < 0.3
        amps = [[round(g.rng.uniform(-2, 2), 3), round(g.rng.uniform(-2, 2), 3) if cplx else 0.0] for _ in ins]
        return {"op": "m_add", "in": ins, "args": {"amps": amps, "form": g.rng.choice(["add", "add", "plus", "minus"])}}

    def run(self, task, rec, ins):
        ar = rec["args"]
        if ar["form"] == "plus" and len(ins) == 2:
            return [ins[0] + ins[1]]
        if ar["form"] == "minus" and len(ins) == 2:
            return [ins[0] - ins[1]]
        amps = [complex(*x) if x[1] else x[0] for x in ar["amps"]]
        return [mps.add(*ins, amplitudes=amps)]

    def shadow(self, task, rec, sins, outs, ins=None):
        ar = rec["args"]
        if ar["form"] == "plus" and len(sins) == 2:
            return [sins[0] + sins[1]]
        if ar["form"] == "minus" and len(sins) == 2:
            return [sins[0] - sins[1]]
        amps = [complex(*x) if x[1] else x[0] for x in ar["amps"]]
        return [sum(c * s for c, s in zip(amps, sins))]


@e1.register
class MScal(e1.Op):
    name = "m_scal"

    def gen(self, g):
        a = pick(g, lambda v, sh: sh is not None)
        if a is None:
            return None
        kind = g.rng.choice(["mul", "rmul", "div", "neg"])
        x = [round(g.rng.uniform(-3, 3), 3) or 0.7, round(g.rng.uniform(-2, 2), 3) if g.rng.random() < 0.3 else 0.0]
        if kind != "div" and g.rng.random() < 0.05:
            x = [0.0, 0.0]
        return {"op": "m_scal", "in": [a], "args": {"kind": kind, "x": x}}

    def run(self, task, rec, ins):
        x = rec["args"]["x"]
        x = complex(*x) if x[1] else x[0]
        k = rec["args"]["kind"]
        a = ins[0]
        return [{"mul": lambda: a * x, "rmul": lambda: x * a, "div": lambda: a / x, "neg": lambda: -a}[k]()]

    def shadow(self, task, rec, sins, outs, ins=None):
        x = rec["args"]["x"]
        x = complex(*x) if x[1] else x[0]
        k = rec["args"]["kind"]
        s = sins[0]
        return [{"mul": s * x, "rmul": x * s, "div": s / x if x else s, "neg": -s}[k]]


@e1.register
class MMatmul(e1.Op):
    name = "m_matmul"

    def gen(self, g):
        a = pick(g, lambda v, sh: sh is not None and v.nr_phys == 2 and v.pC is None)
        if a is None:
            return None
        b = pick(g, lambda v, sh: sh is not None and v.pC is None and applies_to(g.val(a), v) and max(v.get_bond_dimensions()) * max(g.val(a).get_bond_dimensions()) <= 64)
        if b is None:
            return None
        return {"op": "m_matmul", "in": [a, b], "args": {"mode": g.rng.choice([None, "hard", "meta"]), "form": g.rng.choice(["at", "multiply"])}}

    def run(self, task, rec, ins):
        ar = rec["args"]
        if ar["form"] == "at" and ar["mode"] is None:
            return [ins[0] @ ins[1]]
        return [mps.multiply(ins[0], ins[1], mode=ar["mode"])]

    def shadow(self, task, rec, sins, outs, ins=None):
        N = task.N
        A = mps_dense.as_matrix(sins[0], N)
        if sins[1].ndim == N:
            return [(A @ sins[1].reshape(-1)).reshape(sins[1].shape)]
        B = mps_dense.as_matrix(sins[1], N)
        return [(A @ B).reshape(sins[1].shape)]


@e1.register
class MUnary(e1.Op):
    name = "m_unary"
    shares = True

    def gen(self, g):
        a = pick(g, lambda v, sh: sh is not None)
        if a is None:
            return None
        mid = objs(g.task, lambda v, sh: sh is not None and v.pC is not None)      # mid-sweep states (central block pending): views/copies must carry it along
        if mid and g.rng.random() < 0.4:
            a = g.rng.choice(mid)
        v = g.val(a)
        kinds = ["conj", "reverse_sites", "copy", "clone", "shallow_copy"]
        if v.nr_phys == 2:
            kinds += ["transpose", "T", "H", "conjugate_transpose", "on_bra"]
        return {"op": "m_unary", "in": [a], "args": {"kind": g.rng.choice(kinds)}}

    def run(self, task, rec, ins):
        k = rec["args"]["kind"]
        a = ins[0]
        if k in ("T", "H"):
            return [getattr(a, k)]
        return [getattr(a, k)()]

    def shadow(self, task, rec, sins, outs, ins=None):
        k, s, N = rec["args"]["kind"], sins[0], task.N
        mpo = s.ndim == 2 * N
        if k == "conj":
            return [np.conj(s)]
        if k == "reverse_sites":
            if mpo:
                return [np.transpose(s, list(range(N))[::-1] + [N + i for i in range(N)][::-1])]
            return [np.transpose(s, list(range(N))[::-1])]
        if k in ("transpose", "T"):
            return [np.transpose(s, list(range(N, 2 * N)) + list(range(N)))]
        if k in ("H", "conjugate_transpose"):
            return [np.conj(np.transpose(s, list(range(N, 2 * N)) + list(range(N))))]
        return [s]


@e1.register
class MMeasure(e1.Op):
    name = "m_measure"

    def gen(self, g):
        rng = g.rng
        # measurement functions see the site tensors only: an operand still holding a central block (mid-sweep) is outside their contract
        ket = pick(g, lambda v, sh: sh is not None and v.nr_phys == 1 and v.pC is None)
        if ket is None:
            return None
        kind = rng.choice(["overlap", "mpo", "mpo", "mpo_sum", "vdot", "norm", "mpo_reversed", "mpo_reversed"])
        cket = charge_of(g.task, g.sh(ket))

        vk = g.val(ket)

        def okbra(v, sh):
            return sh is not None and v.nr_phys == 1 and v.pC is None and braket(v, vk)
        bra = pick(g, okbra) if rng.random() < 0.6 else ket
        if bra is None:
            bra = ket
        if kind in ("overlap", "norm"):
            return {"op": "m_measure", "in": [bra, ket] if kind == "overlap" else [ket], "args": {"kind": kind}}
        if kind in ("mpo", "mpo_reversed", "vdot") and g.task.space.charged() and rng.random() < 0.3 and sig(vk) == sig(g.task.slots[min(objs(g.task, lambda v, sh: v.nr_phys == 1))]):
            # an operator that changes the total charge (e.g. sum_i a_i S+_i), built on the spot
            w1 = g.emit(OPS_["m_product_mpo"].gen(g, force_charged=True))[0]
            if rng.random() < 0.5 and g.task.N > 1:
                w2 = g.emit(OPS_["m_product_mpo"].gen(g, force_charged=True))[0]
                v1, v2 = g.val(w1), g.val(w2)
                if outer_legs(v1) == outer_legs(v2):
                    w1 = g.emit({"op": "m_add", "in": [w1, w2], "args": {"amps": [[0.8, 0.0], [-1.3, 0.0]], "form": "add"}})[0]
            if applies_to(g.val(w1), vk) and nonzero(g.sh(w1)):
                bra = g.emit({"op": "m_matmul", "in": [w1, ket], "args": {"mode": "hard", "form": "multiply"}})[0]
                if nonzero(g.sh(bra)):
                    return {"op": "m_measure", "in": [bra, ket, w1], "args": {"kind": kind, "amps": [1.0]}}
        ops_ = [pick(g, lambda v, sh: sh is not None and v.nr_phys == 2 and v.pC is None and applies_to(v, vk) and all(v.A[n].get_legs(1).s == vk.A[n].get_legs(1).s for n in range(vk.N)))
                for _ in range(1 if kind != "mpo_sum" else rng.choice([2, 3]))]
        if any(o is None for o in ops_):
            return None
        amps = [round(rng.uniform(-2, 2), 3) for _ in ops_]
        if kind == "mpo" and g.task.N >= 2 and _bosonic(g.task.space) and rng.random() < 0.5:
            # periodic MPO (C06 "periodic MPOs"): the picked operator with its tensors rotated around the ring; Env_mps_mpopbc_mps contracts
            # bra and ket end legs with an identity, so both must carry the same total charge
            vo, vb = g.val(ops_[0]), g.val(bra)
            dn = rng.randrange(g.task.N)
            same_ends = all(vb.virtual_leg(e) == vk.virtual_leg(e) for e in ("first", "last"))
            if same_ends and pbc_able(vo, dn) and applies_to(to_pbc(vo, dn), vk) and max(vo.get_bond_dimensions()) ** 2 * max(vk.get_bond_dimensions()) * max(vb.get_bond_dimensions()) <= 4096:
                return {"op": "m_measure", "in": [bra, ket] + ops_, "args": {"kind": "mpo_pbc", "amps": [1.0], "dn": dn}}
        if len(ops_) == 1 and rng.random() < 0.5:
            # <O psi| O |psi>: non-zero also for operators that change the total charge
            vo = g.val(ops_[0])
            if max(vo.get_bond_dimensions()) * max(vk.get_bond_dimensions()) <= 64 and vk.pC is None:
                bra = g.emit({"op": "m_matmul", "in": [ops_[0], ket], "args": {"mode": "hard", "form": "multiply"}})[0]
        return {"op": "m_measure", "in": [bra, ket] + ops_, "args": {"kind": kind, "amps": amps}}

    def run(self, task, rec, ins):
        k = rec["args"]["kind"]
        if k == "norm":
            return [ins[0].norm()]
        if k == "overlap":
            return [mps.measure_overlap(ins[0], ins[1])]
        bra, ket, ops_ = ins[0], ins[1], ins[2:]
        if k == "vdot":
            return [mps.vdot(bra, ops_[0], ket)]
        if k == "mpo":
            return [mps.measure_mpo(bra, ops_[0], ket)]
        if k == "mpo_pbc":
            core.current_world().probes["measure_mpo_periodic"] += 1
            return [mps.measure_mpo(bra, to_pbc(ops_[0], rec["args"]["dn"]), ket)]
        if k == "mpo_reversed":
            # the same number with every object reversed (charges of bra/op/ket move to the other ends of the chain)
            return [mps.measure_mpo(bra.reverse_sites(), ops_[0].reverse_sites(), ket.reverse_sites())]
        return [mps.measure_mpo(bra, [a * o for a, o in zip(rec["args"]["amps"], ops_)], ket)]

    def shadow(self, task, rec, sins, outs, ins=None):
        k, N = rec["args"]["kind"], task.N
        if k == "norm":
            return [float(np.linalg.norm(sins[0].reshape(-1)))]
        b, kt = sins[0].reshape(-1), sins[1].reshape(-1)
        if k == "overlap":
            return [complex(np.vdot(b, kt))]
        if k == "mpo_pbc":
            return [complex(np.vdot(b, mps_dense.as_matrix(rotate_sites_dense(sins[2], N, rec["args"]["dn"]), N) @ kt))]
        Ms = [mps_dense.as_matrix(s, N) for s in sins[2:]]
        if k in ("vdot", "mpo", "mpo_reversed"):
            return [complex(np.vdot(b, Ms[0] @ kt))]
        return [complex(sum(a * np.vdot(b, M @ kt) for a, M in zip(rec["args"]["amps"], Ms)))]


@e1.register
class MZipper(e1.Op):
    name = "m_zipper"

    def gen(self, g):
        a = pick(g, lambda v, sh: sh is not None and v.nr_phys == 2 and v.pC is None)
        if a is None:
            return None
        b = pick(g, lambda v, sh: sh is not None and v.pC is None and applies_to(g.val(a), v) and max(v.get_bond_dimensions()) * max(g.val(a).get_bond_dimensions()) <= 64)
        if b is None:
            return None
        args = {"normalize": g.rng.random() < 0.4}
        if g.val(b).nr_phys == 1 and g.task.N >= 2 and _bosonic(g.task.space) and g.rng.random() < 0.35:
            dn = g.rng.randrange(g.task.N)          # periodic MPO applied to an MPS (_zipper_MpoPBC)
            if pbc_able(g.val(a), dn) and applies_to(to_pbc(g.val(a), dn), g.val(b)):
                args["pbc"] = dn
        return {"op": "m_zipper", "in": [a, b], "args": args}

    def run(self, task, rec, ins):
        a = ins[0]
        if rec["args"].get("pbc") is not None:
            core.current_world().probes["zipper_periodic"] += 1
            a = to_pbc(a, rec["args"]["pbc"])
        return [mps.zipper(a, ins[1], opts_svd={"tol": 1e-14}, normalize=rec["args"]["normalize"])]

    def shadow(self, task, rec, sins, outs, ins=None):
        if rec["args"].get("pbc") is not None:
            sins = [rotate_sites_dense(sins[0], task.N, rec["args"]["pbc"])] + list(sins[1:])
        r = MMatmul.shadow(self, task, rec, sins, outs, ins)[0]
        if rec["args"]["normalize"]:
            nr = float(np.linalg.norm(r.reshape(-1)))
            if nr < 1e-12 * max(1.0, float(np.linalg.norm(sins[1].reshape(-1))) * float(np.linalg.norm(sins[0].reshape(-1)))):
                return [None]        # normalising the zero vector is undefined: nothing to compare
            r = r / nr
        return [r]


# ----------------------------------------------------------------------------------------------------------
# in-place state machine (C08)
# ----------------------------------------------------------------------------------------------------------

def schmidt_dense(arr, N, cut, mpo=False):
    """Singular values of the dense state across the cut between sites cut-1 and cut (cut in 0..N)."""
    if mpo:
        # MPO as a state over (k_i, b_i) pairs
        perm = [x for i in range(N) for x in (i, N + i)]
        a = np.transpose(arr, perm)
        d2 = [a.shape[2 * i] * a.shape[2 * i + 1] for i in range(N)]
        a = a.reshape(d2)
    else:
        a = arr
    left = int(np.prod(a.shape[:cut])) if cut > 0 else 1
    m = a.reshape(left, -1)
    return np.linalg.svd(m, compute_uv=False)


@e1.register
class MInplace(e1.Op):
    """One call of the in-place API of MpsMpoOBC.  The shadow of the RECEIVER slot is updated."""
    name = "m_inplace"
    inplace = True

    def nout(self, rec):
        return 0

    def gen(self, g):
        rng = g.rng
        a = pick(g, lambda v, sh: sh is not None)
        if a is None:
            return None
        mpos = objs(g.task, lambda v, sh: nonzero(sh) and v.nr_phys == 2)       # operators go through the same state machine (less often picked by chance)
        if mpos and rng.random() < 0.3:
            a = rng.choice(mpos)
        v = g.val(a)
        N = v.N
        if v.pC is None:
            kind = rng.choice(["canonize_", "canonize_", "orthogonalize_site_", "orthogonalize_site_", "truncate_nb", "truncate_bind"])
        elif v.A[v.pC].isdiag:
            # already diagonalised central block: only absorbing it is meaningful (svd of a diagonal tensor is not supported)
            kind = rng.choice(["absorb_central_", "absorb_central_", "canonize_"])
        else:
            kind = rng.choice(["absorb_central_", "absorb_central_", "diagonalize_nb", "diagonalize_bind", "canonize_"])
        args = {"kind": kind, "to": rng.choice(["first", "last"]), "normalize": rng.random() < 0.5}
        if kind == "orthogonalize_site_":
            args["n"] = rng.randrange(N)
        if kind in ("truncate_bind", "diagonalize_bind"):
            args["opts"] = rng.choice([{"D_total": rng.randint(1, 3)}, {"D_total": rng.randint(1, 4), "tol": 1e-14}, {"tol": rng.choice([0.05, 0.2, 0.5])},
                                       # both global limits at once: at some cuts the one binds, at others the other
                                       {"D_total": rng.randint(2, 6), "tol": rng.choice([0.05, 0.2, 0.5])}, {"D_total": rng.randint(2, 8), "tol": rng.choice([0.1, 0.3])},
                                       {"D_block": 1}, {"D_total": 2, "tol_block": 0.3},
                                       # options meant for the partial-SVD policies are legal in opts_svd: the truncation must stay honest
                                       {"policy": "lowrank", "D_block": rng.randint(1, 2)}, {"policy": "block_arnoldi", "D_block": 1, "D_total": 3}])
        if kind in ("truncate_nb", "diagonalize_nb"):
            args["opts"] = rng.choice([{"tol": 1e-15}, {"D_total": 4096}, {"D_total": 4096, "tol": 1e-15, "D_block": 4096}])
        if kind == "truncate_bind":
            args["prepare"] = True       # bring to the documented opposite canonical form first
        if g.task.cfgspec.get("no_randomised") and "policy" in args.get("opts", {}):
            args["opts"] = {"D_total": 2}      # partial-SVD policies start ARPACK from a random vector: results are not a function of the arguments alone
        return {"op": "m_inplace", "in": [a], "args": args}

    def run(self, task, rec, ins):
        psi, ar = ins[0], rec["args"]
        k = ar["kind"]
        self._ret = None
        self._before = None
        if k == "canonize_":
            psi.canonize_(to=ar["to"], normalize=ar["normalize"])
        elif k == "orthogonalize_site_":
            psi.orthogonalize_site_(n=ar["n"], to=ar["to"], normalize=ar["normalize"])
        elif k == "absorb_central_":
            psi.absorb_central_(to=ar["to"])
        elif k in ("diagonalize_nb", "diagonalize_bind"):
            self._ret = psi.diagonalize_central_(opts_svd=dict(ar["opts"]), normalize=ar["normalize"])
        elif k in ("truncate_nb", "truncate_bind"):
            if ar.get("prepare"):
                psi.canonize_(to="first" if ar["to"] == "last" else "last", normalize=False)
                self._before = dense_of(task, psi)
            self._ret = psi.truncate_(to=ar["to"], opts_svd=dict(ar["opts"]), normalize=ar["normalize"])
        else:
            raise ValueError(k)
        return []

    def shadow(self, task, rec, sins, outs, ins=None):
        """State-preservation oracles live here: they need before (shadow) and after (dense of receiver)."""
        ar = rec["args"]
        k = ar["kind"]
        psi = ins[0]
        old = sins[0]
        slot = rec["in"][0]
        new = dense_of(task, psi)
        w = core.current_world()
        prop = getattr(w, "inplace_prop", "C08")
        if getattr(w, "generating", False):
            task.shadows[slot] = new
            return []
        what = "op %d %s %s" % (rec["id"], k, {a: b for a, b in ar.items() if a != "kind"})
        vo, vn = old.reshape(-1), new.reshape(-1)
        no, nn = float(np.linalg.norm(vo)), float(np.linalg.norm(vn))
        binding = k in ("truncate_bind", "diagonalize_bind")
        if not binding:
            # state unchanged up to a positive factor; exactly unchanged when normalize=False
            if no > 0:
                ov = np.vdot(vo, vn)
                lam = ov / (no * no)
                if abs(lam.imag) > 1e-10 * max(1.0, abs(lam)) or lam.real <= 0 and nn > 0:
                    raise V(prop, "state-preserved", "%s: new state is not a positive multiple of the old one (lambda = %r)" % (what, lam))
                if np.linalg.norm(vn - lam * vo) > 1e-10 * max(1.0, nn):
                    raise V(prop, "state-preserved", "%s: state changed: |new - lambda old| = %.3e" % (what, float(np.linalg.norm(vn - lam * vo))))
                preserving_norm = (not ar.get("normalize", True)) or k == "absorb_central_"
                if preserving_norm and abs(lam.real - 1) > 1e-10:
                    raise V(prop, "norm-preserved", "%s: norm changed by factor %.12g although nothing asked for normalisation" % (what, lam.real))
                if k == "canonize_" and ar["normalize"]:
                    if abs(nn - 1) > 1e-10:
                        raise V(prop, "unit-norm", "%s: |state| = %.12g after canonize_(normalize=True)" % (what, nn))
                    if psi.factor != 1:
                        raise V(prop, "unit-norm", "%s: factor = %r after canonize_(normalize=True)" % (what, psi.factor))
                if k in ("truncate_nb", "diagonalize_nb") and self._ret is not None and abs(self._ret) > 1e-7:
                    raise V(prop, "discarded-weight", "%s: non-binding truncation reports discarded weight %.3e" % (what, self._ret))
                if k == "truncate_nb" and ar["normalize"] and abs(nn - 1) > 1e-10:
                    raise V(prop, "unit-norm", "%s: |state| = %.12g after truncate_(normalize=True)" % (what, nn))
        elif k == "truncate_bind":
            # from the documented opposite canonical form: returned weight = relative distance; fixes the kept norm
            ref = self._before.reshape(-1)
            nr = float(np.linalg.norm(ref))
            d = float(self._ret)
            if nr > 0:
                if ar["normalize"]:
                    if nn > 0 and abs(nn - 1) > 1e-10:
                        raise V(prop, "unit-norm", "%s: |state| = %.12g after truncate_(normalize=True)" % (what, nn))
                    ovl = abs(np.vdot(ref, vn)) / nr
                    if abs(ovl ** 2 - (1 - d * d)) > 1e-9:
                        raise V(prop, "discarded-weight", "%s: overlap^2 with the original %.12g, 1 - d^2 = %.12g" % (what, ovl ** 2, 1 - d * d))
                else:
                    if abs(nn ** 2 / nr ** 2 - (1 - d * d)) > 1e-9:
                        raise V(prop, "discarded-weight", "%s: |psi_t|^2/|psi|^2 = %.12g, 1 - d^2 = %.12g" % (what, nn ** 2 / nr ** 2, 1 - d * d))
                    dist = float(np.linalg.norm(ref - vn))
                    if abs(dist - d * nr) > 1e-8 * max(1.0, nr):
                        raise V(prop, "discarded-weight", "%s: |psi - psi_t| = %.12g, d |psi| = %.12g" % (what, dist, d * nr))
                w.stats["binding_truncations"] += 1
                # reference model of the sweep for the global limits (D_total, tol): kept dimensions at every cut and the truncated state itself
                opts = ar.get("opts", {})
                if set(opts) <= {"D_total", "tol"} and psi.pC is None and task.N >= 2 and (psi.nr_phys == 1 or len(set(np.asarray(self._before).shape)) == 1):
                    ms, kept, ranks, amb = model_truncation_sweep(self._before, task.N, psi.nr_phys == 2, ar["to"], opts.get("D_total"), opts.get("tol"))
                    if ms is not None and not amb:
                        bd = psi.get_bond_dimensions()
                        # upper bound: what the limits keep at the moment the cut is truncated; lower bound: the Schmidt rank of the FINAL model state at
                        # that cut (a later truncation may remove a whole charge sector from an earlier bond, which the library then drops)
                        am = np.asarray(ms)
                        if psi.nr_phys == 2:
                            am = np.transpose(am, [x for i in range(task.N) for x in (i, task.N + i)])
                            am = am.reshape([am.shape[2 * i] * am.shape[2 * i + 1] for i in range(task.N)])
                        for c, kk in kept.items():
                            got = bd[c + 1]
                            sv = np.linalg.svd(am.reshape(int(np.prod(am.shape[:c + 1])), -1), compute_uv=False)
                            rfin = int(np.sum(sv > 1e-9 * sv[0])) if sv.size and sv[0] > 0 else 0
                            if not (rfin <= got <= max(kk, rfin)):
                                raise V(prop, "truncation-limits", "%s: bond %d-%d has dimension %d after the sweep; the limits %s applied to the Schmidt values of that cut keep %d "
                                        "(rank of that cut in the truncated state: %d)" % (what, c, c + 1, got, opts, kk, rfin))
                        vm = ms.reshape(-1)
                        nm = float(np.linalg.norm(vm))
                        if nm > 0 and nn > 0:
                            dev = float(np.linalg.norm(vn / nn - vm / nm * (np.vdot(vm, vn) / abs(np.vdot(vm, vn)) if abs(np.vdot(vm, vn)) > 0 else 1)))
                            if dev > 1e-7:
                                raise V(prop, "truncated-state", "%s: the truncated state differs from the sequential Schmidt truncation of the dense state (direction %s) by %.3e" % (what, ar["to"], dev))
                            if not ar["normalize"] and abs(nn - nm) > 1e-8 * max(1.0, nm):
                                raise V(prop, "truncated-state", "%s: norm after the sweep %.12g, model %.12g" % (what, nn, nm))
                        w.stats["truncation_sweeps_vs_model"] += 1
                    elif amb:
                        w.probes["truncation_model_ambiguous_tie"] += 1
        task.shadows[slot] = new
        # structural oracles after the op
        if k == "canonize_" and psi.pC is None:
            if not psi.is_canonical(to=ar["to"], tol=1e-10):
                raise V(prop, "canonical", "%s: is_canonical(to=%s) is False after canonize_" % (what, ar["to"]))
            check_isometries(task, psi, ar["to"], prop, what)
        return []


def model_truncation_sweep(arr, N, mpo, to, D_total, tol):
    """Reference model of truncate_ for the global limits D_total / tol: sequential Schmidt truncation of the dense state, cut by cut in sweep order.
    Returns (dense state in the layout of arr, kept dimension per cut, numerical rank per cut, ambiguous)."""
    a = np.asarray(arr)
    if mpo:
        perm = [x for i in range(N) for x in (i, N + i)]
        a = np.transpose(a, perm)
        a = a.reshape([a.shape[2 * i] * a.shape[2 * i + 1] for i in range(N)])
    dims = list(a.shape)
    cuts = list(range(N - 1)) if to == "last" else list(range(N - 2, -1, -1))
    kept, ranks, ambiguous = {}, {}, False
    for c in cuts:
        M = a.reshape(int(np.prod(dims[:c + 1])), -1)
        U, S, Vh = np.linalg.svd(M, full_matrices=False)
        if S.size == 0 or S[0] == 0:
            return None, None, None, True
        r = int(np.sum(S > 1e-10 * S[0]))
        k = len(S)
        if tol:
            k = int(np.sum(S > tol * S[0]))
            if np.any(np.abs(S / S[0] - tol) < 1e-7):
                ambiguous = True
        if D_total is not None:
            k = min(k, D_total)
        k = max(k, 1) if not tol else k
        if 0 < k < len(S) and S[k] > 1e-10 * S[0] and (S[k - 1] - S[k]) < 1e-7 * S[0]:
            ambiguous = True           # a tie at the boundary: which of the equal values is kept is the library's freedom
        if k == 0:
            return None, None, None, True
        kept[c], ranks[c] = k, r
        a = ((U[:, :k] * S[:k]) @ Vh[:k]).reshape(dims)
    if mpo:
        d2 = [int(round(np.sqrt(x))) for x in dims]
        a = a.reshape([x for d in d2 for x in (d, d)])
        a = np.transpose(a, [2 * i for i in range(N)] + [2 * i + 1 for i in range(N)])
    return a.reshape(np.asarray(arr).shape), kept, ranks, ambiguous


def check_isometries(task, psi, to, prop, what):
    """Site tensors are isometries in the stated direction (checked on dense site tensors)."""
    for n in range(psi.N):
        A = psi.A[n]
        a = A.to_numpy()
        if psi.nr_phys == 2:
            a = np.transpose(a, (0, 1, 3, 2)).reshape(a.shape[0], a.shape[1] * a.shape[3], a.shape[2])
        if to == "last":      # left canonical: sum_{l,p} A* A = 1 on r
            m = a.reshape(-1, a.shape[2])
            g = m.conj().T @ m
        else:                 # right canonical
            m = a.reshape(a.shape[0], -1)
            g = m @ m.conj().T
        skip_edge = (to == "last" and n == psi.N - 1) or (to == "first" and n == 0)
        if skip_edge:
            # the terminal site carries the (normalised) state vector: gram = |.|^2 of dimension-1 leg
            continue
        if not np.allclose(g, np.eye(g.shape[0]), atol=1e-10):
            raise V(prop, "isometry", "%s: site %d is not an isometry towards '%s' (max deviation %.3e)" % (what, n, to, float(np.max(np.abs(g - np.eye(g.shape[0]))))))


@e1.register
class MSpectrum(e1.Op):
    """Read-only: norm / Schmidt values / entropies vs NumPy SVD of the reshaped dense state across every cut."""
    name = "m_spectrum"

    def nout(self, rec):
        return 0

    def gen(self, g):
        a = pick(g, lambda v, sh: sh is not None)
        if a is None:
            return None
        return {"op": "m_spectrum", "in": [a], "args": {"alpha": g.rng.choice([1, 1, 2, 0.5]), "only_norm": g.val(a).pC is not None}}

    def run(self, task, rec, ins):
        psi = ins[0]
        before = {k: core.tensor_canon(v) for k, v in psi.A.items()}
        if rec["args"].get("only_norm"):
            # a central block is pending (mid-sweep state): norm() must still be the norm of the represented state
            self._res = (psi.norm(), None, None)
        else:
            self._res = (psi.norm(), psi.get_Schmidt_values(), psi.get_entropy(alpha=rec["args"]["alpha"]))
        after = {k: core.tensor_canon(v) for k, v in psi.A.items()}
        if before != after and not getattr(core.current_world(), "generating", False):
            raise V("C15", "O1-operand-modified", "norm()/get_Schmidt_values()/get_entropy() changed the state they were called on")
        return []

    def shadow(self, task, rec, sins, outs, ins=None):
        w = core.current_world()
        if getattr(w, "generating", False):
            return []
        prop = getattr(w, "inplace_prop", "C08")
        arr, N = sins[0], task.N
        mpo = arr.ndim == 2 * N
        nrm, schmidt, ent = self._res
        ref_n = float(np.linalg.norm(arr.reshape(-1)))
        what = "op %d norm/Schmidt/entropy" % rec["id"]
        if abs(float(nrm) - ref_n) > 1e-10 * max(1.0, ref_n):
            raise V(prop, "norm", "%s: norm() = %.12g, dense norm %.12g" % (what, float(nrm), ref_n))
        if ref_n == 0 or schmidt is None:
            return []
        alpha = rec["args"]["alpha"]
        for cut in range(N + 1):
            s_ref = schmidt_dense(arr, N, cut, mpo) / ref_n
            S = schmidt[cut]
            vals = np.sort(np.concatenate([np.asarray(b) for _, b in __import__("props.c04", fromlist=["_diag_blocks"])._diag_blocks(S)] or [np.zeros(0)]))[::-1]
            k = max(len(vals), int(np.sum(s_ref > 1e-12)))
            a_ = np.zeros(k)
            b_ = np.zeros(k)
            a_[:min(k, len(vals))] = vals[:k]
            b_[:min(k, len(s_ref))] = s_ref[:k]
            if not np.allclose(a_, b_, atol=1e-9):
                raise V(prop, "schmidt-values", "%s: Schmidt values at cut %d %s differ from the SVD of the dense state %s" % (what, cut, a_[:6], b_[:6]))
            p = s_ref ** 2
            p = p / np.sum(p)
            p = p[p > 1e-12]          # documented: probabilities below tol=1e-12 are discarded
            e_ref = float(-np.sum(p * np.log2(p))) if alpha == 1 else float(np.log2(np.sum(p ** alpha)) / (1 - alpha))
            if abs(float(ent[cut]) - e_ref) > 2e-6:
                raise V(prop, "entropy", "%s: entropy(alpha=%s) at cut %d = %.10g, dense %.10g" % (what, alpha, cut, float(ent[cut]), e_ref))
        return []


E2_WEIGHTS_C06 = {"m_random_mps": 3, "m_random_mpo": 2, "m_product_mps": 1.5, "m_product_mpo": 1.5, "m_generate_mpo": 2, "m_from_tensor": 1,
                  "m_add": 5, "m_scal": 3, "m_matmul": 4, "m_unary": 4, "m_measure": 6, "m_zipper": 2.5, "m_compression": 2,
                  "m_inplace": 3}      # algebra must also hold on mid-sweep objects (central block pending, norm in .factor)
E2_WEIGHTS_C08 = {"m_random_mps": 3, "m_random_mpo": 1.5, "m_product_mps": 0.7, "m_generate_mpo": 1, "m_from_tensor": 1, "m_add": 2, "m_scal": 1.5, "m_matmul": 1,
                  "m_unary": 2.5, "m_inplace": 12, "m_spectrum": 4, "m_degenerate": 1.5}
