"""C02 monitor: independent well-formedness / charge-conservation invariants of a tensor.

Everything is re-derived from public accessors (get_blocks_charge, get_blocks_shape,
get_legs(native=True), s_n, n, size, data, Leg.unfuse_leg) and the model group law
(sim.models.group) — not from yastn.sym.*.
"""
import itertools

import numpy as np

from . import core
from .core import yastn
from .models.group import Sym

V = core.Violation


def sym_of(x):
    sid = getattr(x.config.sym, "SYM_ID", "dense")
    sid = {"none": "dense", "U(1)": "U1"}.get(sid, sid)
    return Sym(sid)


def check_tensor(x, prop="C02", what=""):
    """I1, I2, I3 on one tensor.  Raises Violation."""
    sym = sym_of(x)
    nsym = sym.nsym
    # I1 -- the library's own test
    try:
        ok = x.is_consistent()
    except (AssertionError, yastn.YastnError) as e:
        raise V(prop, "I1-is_consistent", "%s: is_consistent() fails: %s" % (what, str(e)[:200]))
    if ok is not True:
        raise V(prop, "I1-is_consistent", "%s: is_consistent() returned %r" % (what, ok))
    # I2 -- independent re-derivation
    ts = x.get_blocks_charge()      # storage (native) order, by documentation
    Ds = x.get_blocks_shape()
    s_log = tuple(x.s_n)            # logical order: logical native leg i is storage leg trans[i]
    trans = tuple(x.trans)
    nd = len(s_log)
    s = [0] * nd
    for i, k in enumerate(trans):
        s[k] = s_log[i]
    s = tuple(s)
    n = tuple(x.n)
    if len(ts) != len(Ds):
        raise V(prop, "I2-structure", "%s: %d block charges, %d block shapes" % (what, len(ts), len(Ds)))
    if len(n) != nsym:
        raise V(prop, "I2-structure", "%s: charge %s has wrong length" % (what, n))
    if tuple(n) != sym.canon(n):
        raise V(prop, "I2-charge-range", "%s: total charge %s outside the canonical range" % (what, n))
    prev = None
    per_leg = [dict() for _ in range(nd)]
    total = 0
    for t, D in zip(ts, Ds):
        if len(t) != nd * nsym or len(D) != nd:
            raise V(prop, "I2-structure", "%s: block %s / shape %s do not match rank %d" % (what, t, D, nd))
        if not all(type(v) is int for v in t) or not all(type(v) is int for v in D):
            raise V(prop, "I2-types", "%s: non-int entries in block %s / %s" % (what, t, D))
        if prev is not None and not (prev < tuple(t)):
            raise V(prop, "I2-order", "%s: blocks not unique and strictly ordered at %s" % (what, t))
        prev = tuple(t)
        tl = [tuple(t[i * nsym:(i + 1) * nsym]) for i in range(nd)]
        for c in tl:
            if c != sym.canon(c):
                raise V(prop, "I2-charge-range", "%s: leg charge %s outside the canonical range" % (what, c))
        if nsym and sym.fuse(tl, s) != n:
            raise V(prop, "I2-selection-rule", "%s: block %s with signature %s does not combine to total charge %s" % (what, t, s, n))
        if x.isdiag and tl[0] != tl[1]:
            raise V(prop, "I2-selection-rule", "%s: diagonal tensor with off-diagonal block %s" % (what, t))
        for i, (c, d) in enumerate(zip(tl, D)):
            if d <= 0:
                raise V(prop, "I2-dimensions", "%s: non-positive dimension in block %s" % (what, t))
            if per_leg[i].setdefault(c, d) != d:
                raise V(prop, "I2-dimensions", "%s: leg %d charge %s has dimensions %d and %d" % (what, i, c, per_leg[i][c], d))
        total += D[0] if x.isdiag else int(np.prod(D, dtype=np.int64)) if nd else 1
    if x.size != total or len(x.data) != total:
        raise V(prop, "I2-size", "%s: size %s, len(data) %d, blocks add up to %d" % (what, x.size, len(x.data), total))
    sl = getattr(x, "slices", None)
    if sl is not None:
        pos = 0
        for k, (slc, D) in enumerate(zip(sl, Ds)):
            a, b = slc.slcs[0]
            dp = D[0] if x.isdiag else int(np.prod(D, dtype=np.int64)) if nd else 1
            if a != pos or b - a != dp or tuple(slc.D) != tuple(D) or slc.Dp != dp:
                raise V(prop, "I2-slices", "%s: slice %d (%s) is not the contiguous image of block shape %s at %d" % (what, k, slc, D, pos))
            pos = b
        if pos != total:
            raise V(prop, "I2-slices", "%s: slices cover [0,%d), size %d" % (what, pos, total))
    # legs agree with the per-leg tables
    legs = x.get_legs(native=True)
    for i, l in enumerate(legs[:nd] if not x.isdiag else legs[:2]):
        k = trans[i]
        got = dict(zip([tuple(t) for t in l.t], l.D))
        if ts and got != dict(sorted(per_leg[k].items())):
            raise V(prop, "I2-legs", "%s: get_legs(native) of leg %d says %s, blocks say %s" % (what, i, got, per_leg[k]))
        if l.s != s[k]:
            raise V(prop, "I2-legs", "%s: leg %d signature %d vs %d" % (what, i, l.s, s[k]))
        # I3 -- fusion history
        check_leg_history(l, sym, prop, "%s leg %d" % (what, i))
    # mfs partitions native legs
    mfs = getattr(x, "mfs", None)
    if mfs is not None and sum(m[0] for m in mfs) != nd:
        raise V(prop, "I3-meta-fusion", "%s: meta-fusion trees %s do not partition %d native legs" % (what, mfs, nd))


def check_leg_history(leg, sym, prop, what, depth=0):
    """For a hard-fused leg: every effective charge has the dimension its recorded
    constituents imply (sum over constituent combinations fusing to it of the product of the
    recorded dimensions for a product node; sum of the summands for a direct-sum node)."""
    if depth > 6 or not leg.is_fused():
        return
    hf = getattr(leg, "hf", None)
    if hf is None:
        return
    op = hf.op[0]
    try:
        parts = leg.unfuse_leg()
    except Exception:  # noqa: BLE001 -- 's' legs cannot be unfused through the public API
        parts = None
    if op == "p" and parts is not None:
        nsym = sym.nsym
        table = {}
        for combo in itertools.product(*[list(zip([tuple(t) for t in p.t], p.D)) for p in parts]):
            te = sym.scale(leg.s, sym.fuse([c[0] for c in combo], [p.s for p in parts])) if nsym else ()
            d = 1
            for c in combo:
                d *= c[1]
            table[te] = table.get(te, 0) + d
        for t, D in zip(leg.t, leg.D):
            t = tuple(t)
            if table.get(t) != D:
                raise V(prop, "I3-fusion-history", "%s: effective charge %s has dimension %d, recorded constituents imply %s" % (what, t, D, table.get(t)))
        for p in parts:
            if p.s not in (-1, 1):
                raise V(prop, "I3-fusion-history", "%s: bad constituent signature" % what)
            check_leg_history(p, sym, prop, what + " constituent", depth + 1)
    elif op == "s":
        # direct sum: recorded summand dimensions add up
        tree, t_h, D_h = hf.tree, hf.t, hf.D
        # children of the root: consecutive sub-trees after position 0
        def span(pos):
            L = tree[pos]
            if L == 1:
                return 1
            q, leaves = pos + 1, 0
            while leaves < L:
                leaves += tree[q]
                q += span(q)
            return q - pos
        pos, kids = 1, []
        while pos < len(tree):
            kids.append(pos)
            pos += span(pos)
        table = {}
        for k in kids:
            for t, d in zip(t_h[k - 1], D_h[k - 1]):
                table[tuple(t)] = table.get(tuple(t), 0) + d
        for t, D in zip(leg.t, leg.D):
            if table.get(tuple(t)) != D:
                raise V(prop, "I3-fusion-history", "%s: direct-sum charge %s has dimension %d, summands add up to %s" % (what, tuple(t), D, table.get(tuple(t))))


def check_zero_outside(task, x, sh, prop="C02", what=""):
    """I4: dense elements outside the symmetry-allowed index ranges are exactly zero
    (on the universe embedding of the shadow's elementary legs)."""
    from . import e1
    from .models.dense import allowed_mask
    if sh is None or not hasattr(sh, "axes") or sh.sym.nsym == 0:
        return
    if len(sh.axes) > 6:
        return
    arr = e1.obs_dense(task, x, sh.axes)
    mask = allowed_mask(sh.axes, tuple(x.n), sh.sym)
    if arr.shape != mask.shape:
        return
    bad = arr[~mask]
    if bad.size and np.any(bad != 0):
        raise V(prop, "I4-nonzero-outside-sectors", "%s: %d dense elements outside the symmetry-allowed sectors are non-zero" % (what, int(np.sum(bad != 0))))


def tensors_in(obj, depth=0):
    """All yastn tensors reachable inside a returned object (MPS / PEPS / env / containers)."""
    if depth > 4:
        return
    if isinstance(obj, yastn.Tensor):
        yield obj
    elif isinstance(obj, (list, tuple)):
        for o in obj:
            yield from tensors_in(o, depth + 1)
    elif isinstance(obj, dict):
        for o in obj.values():
            yield from tensors_in(o, depth + 1)
    elif hasattr(obj, "A") and isinstance(getattr(obj, "A"), dict):
        yield from tensors_in(obj.A, depth + 1)
    elif hasattr(obj, "_data") and isinstance(getattr(obj, "_data"), dict):
        yield from tensors_in(obj._data, depth + 1)
