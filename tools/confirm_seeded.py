#!/venv/bin/python
"""tools/confirm_seeded.py <source dir with patch.diff demo.py notes.md> <name> <property ids,comma>

Confirms a seeded change independently of whoever wrote it and files it under /verif/seeded/<name>/:
 1. scratch copy of /repo (current HEAD working tree) outside /repo and /verif; patch applies;
 2. demo.py exits 0 on the unchanged tree and non-zero on the changed tree;
 3. the pinned test suite passes on the changed tree (pytest -n 16; the known -n temp-file collision is re-run serially).
The scratch copy is removed afterwards.
"""
import json
import os
import re
import shutil
import subprocess
import sys
import tempfile
import time

src, name, props = sys.argv[1], sys.argv[2], sys.argv[3].split(",")
dst = os.path.join("/verif/seeded", name)
scratch = tempfile.mkdtemp(prefix="verif-confirm-", dir="/tmp")
copy = os.path.join(scratch, "repo")
env = dict(os.environ, OPENBLAS_NUM_THREADS="1", OMP_NUM_THREADS="1")
res = {"breaks": props, "source": "independent sub-agent given only the property text and a private worktree"}
try:
    shutil.copytree("/repo", copy, ignore=shutil.ignore_patterns(".git", "__pycache__", "*.pyc", ".pytest_cache"))
    patch = os.path.join(src, "patch.diff")
    r = subprocess.run(["patch", "-p1", "-d", copy, "-i", os.path.abspath(patch)], capture_output=True, text=True)
    res["patch_applies"] = r.returncode == 0
    if r.returncode != 0:
        print("PATCH FAILED", r.stdout, r.stderr)
        sys.exit(2)
    demo = os.path.join(src, "demo.py")
    e0 = dict(env, PYTHONPATH="/repo")
    e1 = dict(env, PYTHONPATH=copy)
    r0 = subprocess.run(["/venv/bin/python", os.path.abspath(demo)], capture_output=True, text=True, env=e0, cwd=scratch, timeout=600)
    r1 = subprocess.run(["/venv/bin/python", os.path.abspath(demo)], capture_output=True, text=True, env=e1, cwd=scratch, timeout=600)
    res["demo_unchanged_exit"] = r0.returncode
    res["demo_changed_exit"] = r1.returncode
    res["demo_changed_tail"] = (r1.stdout + r1.stderr).strip().splitlines()[-2:]
    t0 = time.time()
    cmd = ["/venv/bin/python", "-m", "pytest", "-q", "-p", "no:cacheprovider", "-p", "no:randomly", "--timeout=900", "-n", "16", "tests"]
    rt = subprocess.run(cmd, capture_output=True, text=True, env=e1, cwd=copy, timeout=3600)
    tail = rt.stdout.strip().splitlines()[-1] if rt.stdout.strip() else ""
    failed = re.findall(r"^FAILED (\S+)", rt.stdout, flags=re.M)
    still = []
    for f in failed:
        r2 = subprocess.run(["/venv/bin/python", "-m", "pytest", "-q", "-p", "no:cacheprovider", "-p", "no:randomly", f], capture_output=True, text=True, env=e1, cwd=copy, timeout=1800)
        if r2.returncode != 0:
            still.append(f)
    res["suite_summary"] = tail
    res["suite_failed_under_xdist"] = failed
    res["suite_failed_serial_rerun"] = still
    res["suite_wall_s"] = round(time.time() - t0)
    ok = res["demo_unchanged_exit"] == 0 and res["demo_changed_exit"] != 0 and not still and "passed" in tail
    res["confirmed"] = ok
    notes = os.path.join(src, "notes.md")
    if ok:
        os.makedirs(dst, exist_ok=True)
        shutil.copy(patch, os.path.join(dst, "patch.diff"))
        shutil.copy(demo, os.path.join(dst, "demo.py"))
        if os.path.exists(notes):
            shutil.copy(notes, os.path.join(dst, "notes.md"))
        res["ran"] = "tools/confirm_seeded.py: patch applied to a scratch copy of /repo HEAD %s; demo.py exit %d unchanged / %d changed; pinned suite on the changed tree: %s" % (
            subprocess.run(["git", "-C", "/repo", "rev-parse", "--short", "HEAD"], capture_output=True, text=True).stdout.strip(),
            res["demo_unchanged_exit"], res["demo_changed_exit"], tail)
        res["needs"] = "see notes.md"
        with open(os.path.join(dst, "meta.json"), "w") as f:
            json.dump(res, f, indent=1)
    print(json.dumps(res))
finally:
    shutil.rmtree(scratch, ignore_errors=True)
