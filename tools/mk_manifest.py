#!/venv/bin/python
"""Regenerates /verif/MANIFEST.json from the property modules that exist under props/."""
import importlib
import json
import os
import sys

sys.path.insert(0, "/verif")
os.environ.setdefault("PYTHONHASHSEED", "0")

LEVEL_TEXT = {
 "C16": "Seeded search over simulated worlds: twin tasks (same block layout; different symmetry, fermionic flags, fusion history, policy) interleaved on the shared metadata caches while the simulator clears/resizes/evicts at op boundaries (real functools.lru_cache) and at every single lookup (instrumented table). Every step must be bit-identical to the task's isolated cold run, cached values must keep their insertion digest, hits must equal recomputation. A quarter of the runs interleave twin MPS tasks (algebra, in-place API, measurements, stepped dmrg_/tdvp_ workers) and a PEPS task (gates, environments, measurements, evolution steps) instead of tensor tasks. Sampling, not proof.",
 "C15": "Seeded histories over a pool of live, deliberately aliased tensors with the documented in-place API injected at arbitrary op boundaries and cache/LAPACK faults; byte-level snapshots of ALL live objects before and after every call; sharing measured with numpy.shares_memory. Object world drawn per seed: tensors, MPS/MPO (incl. central block, the whole in-place API) or PEPS/environments/two-layer tensors; container methods ending in '_' may change only the receiver and what physically shared memory with it. Sampling, not proof.",
 "C14": "The same seeded program executed under a reference configuration and under disturbed knob schedules (3 tensordot kernels x fusion modes x forced modes, consume_transpose/copy/re-lazy injected at arbitrary points, cache faults); contract_with_unroll against the plain contraction for random admissible paths/optimizers/unroll specs. Differential oracle on legs, charge, dense values. Sampling, not proof.",
 "C02": "Invariant monitor (independent re-derivation of selection rule, ordering, slices, sizes, types, fusion history from public accessors and an independent group-law model; exact zeros outside allowed sectors; total charge predicted by the dense model) evaluated after every step of seeded histories under all knob values and fault kinds; in 3 of 7 runs the history is over MPS/MPO (incl. stepped dmrg_/tdvp_ workers) or PEPS/environments and the monitor runs on every tensor those containers hold. Sampling, not proof.",
 "C01": "THIN as a simulation target: each op is a pure function of its operands' state. Baseline arm = seeded sampling of operation histories against a dense NumPy reference model op by op (plus cross-check of the four views). Disturbed arm = the same under the other tensordot kernels / fusion modes, cache faults at every lookup and buggify events; only this arm is simulation proper. Both reported separately.",
 "C03": "THIN as a simulation target. Fusion histories (hard/meta/mixtures, depth<=3, pairs fused from legs with equal/overlapping/disjoint sector sets, block()) against an unfused dense shadow and relational identities; incompatible pairs must raise YastnError. Disturbed arm: forced fusion modes, cache faults on the fusion metadata tables, buggify. Sampling, not proof.",
}
NOTE = {
 "C16": "Trusted: the harness' canonical digest; BLAS pinned to one thread; in the instrumented arm the LRU container is a contract-equivalent stub.",
 "C15": "Trusted: snapshot function covers struct, slices, hfs, mfs, trans, dtype, data bytes; unexpected exceptions (no object returned) are counted, not flagged.",
 "C14": "Trusted: complete unfusing through the public API as the common representation when fusion modes differ; legs_union/to_numpy for the dense comparison.",
 "C02": "Trusted: sim/models/group.py (group laws re-implemented from the documentation); public accessors get_blocks_charge/get_blocks_shape/get_legs.",
 "C01": "Trusted: NumPy; the shadow model (sim/models/dense.py, sim/e1.py); observation through unfuse_legs + to_numpy(legs=universe legs).",
 "C03": "Trusted: NumPy; the shadow model; YastnError as the documented rejection.",
}
ORDER = ["C01", "C02", "C03", "C04", "C05", "C06", "C07", "C08", "C09", "C10", "C11", "C12", "C13", "C14", "C15", "C16", "C17"]
NA = [
  {"property_id": "C18", "reason": "Krylov solvers are pure numerical functions of (f, v, t, options): no state outlives a call, no failure handler, knob, clock or RNG; branches are selected by numerical input only. Carried Krylov state (expmv_ncv across TDVP steps) is decided under C10. See DESIGN.md section 5."},
  {"property_id": "C19", "reason": "Stateless integer arithmetic and a frozen dataclass constructor: no history, fault, knob, clock or schedule; the fitting technique is exhaustive enumeration of a bounded box (model checking), not simulation. See DESIGN.md section 5."},
  {"property_id": "C20", "reason": "Pure indexing functions of (class, dims, boundary, site, direction) and a dict-backed container; finite and completely enumerable, no schedule/fault/time dimension. Lattice aliasing is covered under C15/C17. See DESIGN.md section 5."},
]
extra_na = json.load(open("/verif/tools/not_claimed.json")) if os.path.exists("/verif/tools/not_claimed.json") else []

checks, engines = [], {}
for pid in ORDER:
    if not os.path.exists("/verif/props/%s.py" % pid.lower()) or any(x["property_id"] == pid for x in extra_na):
        continue
    mod = importlib.import_module("props." + pid.lower())
    engines.setdefault(mod.ENGINE, []).append(pid)
    checks.append({
        "property_id": pid,
        "quick_cmd": "./check.py %s --tier quick" % pid,
        "thorough_cmd": "./check.py %s --tier thorough" % pid,
        "evidence_file": "/verif/evidence/%s.json" % pid,
        "replay_cmd_template": "./check.py %s --replay {path}" % pid,
        "engine": mod.ENGINE,
        "level_claimed": {"category": mod.LEVEL, "text": getattr(mod, "LEVEL_TEXT", None) or LEVEL_TEXT[pid], "design_ref": "DESIGN.md section 4 (%s), section 3" % pid},
        "level_note": getattr(mod, "LEVEL_NOTE", None) or NOTE[pid],
        "technique": mod.TECHNIQUE,
    })
ENG = {
 "E1": ("sim/e1.py, sim/e1run.py, sim/e1prop.py, sim/core.py, sim/driver.py, sim/models/", "tensor world: seeded programs over yastn tensors as (interleaved) tasks in one simulated process; cache/LAPACK/RNG seams owned by the simulator; dense NumPy shadow model"),
 "E2": ("sim/e2.py, sim/models/jw.py, sim/models/mps_dense.py", "MPS world: MPS/MPO state machines and stepped dmrg_/tdvp_/compression_ workers with observers, cancellation, method switches; dense Jordan-Wigner reference"),
 "E3": ("sim/e3.py", "PEPS world: in-place gate histories and environments as caches of contractions on small finite lattices; dense Jordan-Wigner reference"),
}
m = {
 "version": 1,
 "setup_cmd": "true",
 "hooks": {"guard": "YASTN_VERIF",
           "enable": "no in-repo hooks: every seam (cache tables, LAPACK driver, backend RNG, storage, worker generators) is reached from outside by module-global rebinding or caller-supplied arguments; YASTN_VERIF is reserved and unused",
           "baseline_off_cmd": "cd /repo && /venv/bin/python -m pytest -ra -q -p no:cacheprovider --timeout=900 --continue-on-collection-errors",
           "source_commits": [], "add_only": True},
 "engines": [{"name": k, "path": ENG[k][0], "serves_properties": v, "kind_free_text": ENG[k][1]} for k, v in sorted(engines.items())],
 "checks": checks,
 "notes": "All checks: exit 0 = held on everything explored, exit 1 + 'VIOLATION property=<id> replay=<path>' = violation (replayed in a fresh process first), exit 2 = harness problem (never a pass). VERIF_SEED shifts the seed range, VERIF_TIER/--tier selects budgets, VERIF_REPO selects the tree (sensitivity runner only). Known findings: /verif/known_findings.json. Genuine defects found and repaired are listed there as 'fixed:' entries.",
 "not_applicable": NA + extra_na,
}
json.dump(m, open("/verif/MANIFEST.json", "w"), indent=1)
print("checks:", [c["property_id"] for c in checks])
